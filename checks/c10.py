"""C10  The target list is assembled faithfully from every source.

proof:          lean/PdshVerif/Props/C10.lean (model of wcoll.c + the -w/WCOLL part of opt.c: include reading
                terminates for every include graph, every path is read at most once, sources are appended
                in order, unreadable = error, short lines are never split, fgets splits long ones)
correspondence: real `pdsh -Q -w ...` of a scratch build, run as uid 1000 over generated file trees, vs
                `pdshmodel wcoll model` (ordered expressions handed to the parser, warning count, exit)
oracle:         the property-level assembly (independent Python reading of the property text, cross-checked
                on every case against Opt/WcollSpec.lean through `pdshmodel wcoll spec`) vs the real output
"""
import json
import os
import re
import shutil
import resource
import subprocess
from concurrent.futures import ThreadPoolExecutor

from vlib.common import hexs

LEVEL = "proof"
PROPS = "PdshVerif.Props.C10"
MANIFEST = dict(
    engine="wcoll",
    technique="Lean 4 proof (termination of include reading for every include graph by a fuel-sufficiency "
              "invariant, read-once, source order, error on unreadable, byte-level reader: fgets pieces glued = whole lines, "
              "include lookup in the command-line file's directory at every depth) + differential "
              "correspondence of the real pdsh binary over generated file trees against the compiled model",
    text="Theorems in lean/PdshVerif/Props/C10.lean about a hand-written model of wcoll.c and of the -w/^file/-/"
         "WCOLL processing of opt.c (virtual file system, fgets with LINEBUFSIZE regenerated from /repo); the real "
         "pdsh is run as an unprivileged user over generated trees (nesting, diamonds, cycles, missing and "
         "mode-000 files, line lengths around the buffer size and up to 100 KiB, all source orders incl. stdin "
         "and WCOLL) and compared with the model and with the property-level assembly, which yields the "
         "failing tree as replay.",
    design_ref="DESIGN.md section 5 C10",
    note="Lean 4.33 kernel; axioms propext/Classical.choice/Quot.sound at most (audited per theorem every run); "
         "hand-written model tied to wcoll.c/opt.c by differential execution of the real binary built from /repo's "
         "working tree plus LINEBUFSIZE regenerated from /repo; expansion of an expression (hostlist.c) is an "
         "abstract parameter of the theorems and a small expander cross-checked against the real parser in the "
         "check; file system, access(2), fgets, dirname(3) modelled not verified; harness, generators trusted")
SETPRIV = ["setpriv", "--reuid", "1000", "--regid", "1000", "--clear-groups"]


# ------------------------------------------------------------------ small expander (generator's sub-language)
def split_top(s, seps):
    """split.c/hostlist.c _next_tok: separators inside brackets do not split"""
    out, cur, lvl = [], "", 0
    for ch in s:
        if lvl == 0 and ch in seps:
            if cur:
                out.append(cur)
            cur = ""
        else:
            if ch == "[":
                lvl += 1
            elif ch == "]":
                lvl -= 1
            cur += ch
    if cur:
        out.append(cur)
    return out


def expand_expr(e):
    hosts = []
    for tok in split_top(e, "\t, "):
        if "[" in tok and "]" in tok:
            pre, rest = tok.split("[", 1)
            rng, suf = rest.split("]", 1)
            for item in rng.split(","):
                if "-" in item:
                    a, b = item.split("-", 1)
                    for v in range(int(a), int(b) + 1):
                        hosts.append(pre + str(v).zfill(len(a)) + suf)
                else:
                    hosts.append(pre + item + suf)
        else:
            hosts.append(tok)
    return hosts


# ------------------------------------------------------------------ independent reading of the property text
def spec_lines(content, linebuf=None):
    """whole lines; with linebuf (classification of D12 only): what fgets(buf, linebuf) would return"""
    if linebuf is None:
        ls = content.split("\n")
        if ls and ls[-1] == "":
            ls.pop()
        return ls
    out, cur = [], ""
    for ch in content:
        cur += ch
        if ch == "\n" or len(cur) == linebuf - 1:
            out.append(cur.rstrip("\n") if ch == "\n" else cur)
            cur = ""
    if cur:
        out.append(cur)
    return out


def spec_classify(line):
    m = re.fullmatch(r"#include[ \t]+([^ \t]+)[ \t]*", line)
    if m:
        return ("include", m.group(1))
    if line.startswith("#"):
        return ("nothing", None)
    e = line.split("#", 1)[0].strip(" \t")
    return ("expr", e) if e else ("nothing", None)


def spec_dir(top):
    return top.rsplit("/", 1)[0] or "/" if "/" in top else "."


class SpecError(Exception):
    pass


def spec_stream(fs, topdir, content, linebuf=None, trunc=None):
    """trunc (classification of F10-LONGNAME only): explicit include names are cut to that many bytes"""
    visited, skipped, exprs = [], [0], []

    def walk(content):
        for line in spec_lines(content, linebuf):
            kind, arg = spec_classify(line.rstrip("\n"))
            if kind == "expr":
                exprs.append(arg)
            elif kind == "include":
                name = arg if arg.startswith(("/", "./", "../")) else topdir + "/" + arg
                if trunc and arg.startswith(("/", "./", "../")):
                    name = arg[:trunc]
                if name in visited:
                    skipped[0] += 1
                    continue
                visited.append(name)
                if name not in fs or not fs[name][0]:
                    raise SpecError(name)
                walk(fs[name][1])
    walk(content)
    return exprs, skipped[0]


def spec_assemble(case, linebuf=None, trunc=None):
    """-> ('ok', exprs, skipped, excluded exprs) | ('error',).  Sources in order; an exclusion file ('x') is read
    like every ^file, its hosts are excluded instead of targeted; WCOLL only when no source of targets is given"""
    fs = case["fs"]
    stdin = case["stdin"] or ""
    exprs, skipped, excluded = [], 0, []
    srcs = list(case["sources"])
    if not any(s[0] not in NOT_A_TARGET_SOURCE for s in srcs) and case["env"] is not None:
        srcs.append(("s",) if case["env"] == "-" else ("f", case["env"]))
    try:
        for s in srcs:
            if s[0] == "w":
                exprs.append(s[1])
            elif s[0] == "xw":
                excluded.append(s[1])
            elif s[0] in ("r", "xr"):
                pass                    # a filter: see spec_regex
            elif s[0] in ("f", "x"):
                if s[1] not in fs or not fs[s[1]][0]:
                    raise SpecError(s[1])
                e, k = spec_stream(fs, spec_dir(s[1]), fs[s[1]][1], linebuf, trunc)
                if s[0] == "f":
                    exprs += e
                else:
                    excluded += e
                skipped += k
            else:
                e, k = spec_stream(fs, ".", stdin, linebuf, trunc)
                stdin = ""
                exprs += e
                skipped += k
    except SpecError:
        return ("error",)
    return ("ok", exprs, skipped, excluded)


NOT_A_TARGET_SOURCE = ("x", "xw", "r", "xr")      # exclusion file, exclusion word, /regex/, -/regex/: filters, not sources


def spec_regex(case):
    """the filters of a command line: (negative?, pattern) in order"""
    return [(s[0] == "xr", s[1]) for s in case["sources"] if s[0] in ("r", "xr")]


def model_regex(field):
    return [] if field == "~" else [(x[0] == "-", bytes.fromhex(x[1:]).decode("latin-1")) for x in field.split(",")]


def target_hosts(exprs, excluded, regex=()):
    """the target list: hosts of the expressions in order, minus every host an exclusion file names;
    None when an excluded name occurs more than once among the targets (how many occurrences an exclusion
    removes is another property's business)"""
    hosts = [h for e in exprs for h in expand_expr(e)]
    ex = {h for e in excluded for h in expand_expr(e)}
    if any(hosts.count(h) > 1 for h in ex):
        return None
    out = [h for h in hosts if h not in ex]
    for neg, pat in regex:          # /re/ keeps the names that match, -/re/ drops them (generator: patterns POSIX = Python)
        out = [h for h in out if (re.search(pat, h) is None) == neg]
    return out


def opt_kind(o):
    return ("w", o) if isinstance(o, str) else ("x", o[1])


# ------------------------------------------------------------------ generators
EXPRS = ["foo1", "foo2", "n[1-3]", "a,b", " x7 ", "h1 # comment", "n[01-03]-ib", "a1 a2", "c9\t", "z[8-10]",
         "m[1,3]", "q", "host.dom", "r2d2", "\tt1", "k[5-6]x # tail # more", "n07,n08", "h2 #include B", "h3\t#include"]
NOISE = ["", "#", "# comment", "\t", "   ", "#\t#include X", "#!shebang"]
MALFORMED = ["#include", "#include ", "#include B C", "#includeB", " #include B", "#include B # c", "#Include B",
             "#include\rB", "#include B\r", "x #include B", "#include\t\tB\tz", "#includeB C"]
NAMES = "ABCDEFGHIJKL"
LINEBUF = [2048]        # the reader's buffer size, set by run() from the constants regenerated from /repo
TOPFD = [0]             # 0: read_wcoll closes its file; else the number of file sources that exhaust NOFILE_DEFAULT (probed)
NOFILE_DEFAULT = 40     # RLIMIT_NOFILE of every `-Q` observation (deepest generated include chain: 12 files)


def long_line(rng, target, fill=None, comment=None, linebuf=2048):
    """a line of exactly `target` bytes: a FEW SHORT names in long runs of separators (blank, tab and comma all
    separate hosts in a wcoll line), names placed ACROSS the reader's buffer boundaries (multiples of
    linebuf-1) and elsewhere; optionally the tail is a comment.  The long-LINE dimension is what this property
    needs: names stay short (far below hostlist.c's 1023-byte token limit) and the resulting host list stays far
    below the 1024-byte buffer `pdsh -Q` prints through."""
    fill = fill or rng.choice([" ", "\t", ",", "mixed", " ", ","])
    if fill == "mixed":
        chars = []
        while len(chars) < target:
            chars += [rng.choice(" \t,")] * rng.randrange(1, 400)
        chars = chars[:target]
    else:
        chars = [fill] * target
    taken = []          # (start, end) of placed names, kept one separator apart

    def place(start, name):
        end = start + len(name)
        if start < 0 or end > target or any(start <= e and end >= st for st, e in taken):
            return False
        chars[start:end] = list(name)
        taken.append((start, end))
        return True
    seq = rng.randrange(1, 9000)
    step = linebuf - 1
    bounds = [k * step for k in range(1, target // step + 1)]
    share = min(1.0, 10.0 / max(1, len(bounds)))
    for bnd in bounds:
        if rng.random() < share or bnd == bounds[0]:
            name = "node%04d" % seq
            seq += 1
            place(bnd - rng.randrange(1, len(name)), name)          # the name straddles the boundary
    for _ in range(rng.randrange(0, 5)):
        name = rng.choice(["node%04d", "n%04d-ib", "r%04d"]) % seq
        seq += 1
        place(rng.choice([0, target - len(name), rng.randrange(0, max(1, target - len(name)))]), name)
    if comment is None:
        comment = rng.random() < 0.25
    if comment and target > 12:
        pos = rng.randrange(1, target)
        while any(st <= pos < e for st, e in taken):
            pos += 1
        if pos < target:
            chars[pos] = "#"
    if chars[0] == "#":
        chars[0] = " "
    return "".join(chars)


def gen_case(rng, stream, casedir):
    topdir = rng.choice(["", "t", "t", "t/u"])          # pdsh runs in the case directory: mostly NOT the top file's
    if stream == "colon":
        topdir = rng.choice(["c:d", "t/c:d", "c:"])
    style = rng.choice(["rel", "rel", "dot", "abs"])

    def cmd_name(rel):
        if style == "abs":
            return casedir + "/" + rel
        if style == "dot":
            return "./" + rel
        return rel
    nfiles = rng.choices([1, 2, 3, 4, 6, 9, 12], [15, 20, 20, 15, 15, 10, 5])[0]
    names = list(NAMES[:nfiles])
    place = {}
    ref = {}
    decoys = {}
    for n in names:
        where = "top" if n == "A" else rng.choices(["top", "sub", "other", "hidden"], [45, 17, 18, 20])[0]
        if where == "hidden":
            # names that merely START with dots (hidden file / hidden sub-directory next to the wcoll file): they
            # are NOT `./` or `../` paths and must be looked up in the directory of the command-line file
            nm = rng.choice([".extra", "..racks", ".d/list", "..h/", ".", "..", "...", ".x.", "..d/.e/"]) + n
            place[n] = (topdir + "/" if topdir else "") + nm
            ref[n] = nm
            if topdir and rng.random() < 0.6:
                decoys[nm] = "decoy-%s\n" % n.lower()       # same name in the current directory: must not be used
        elif where == "top":
            place[n] = (topdir + "/" if topdir else "") + n
            ref[n] = n
        elif where == "sub":
            place[n] = (topdir + "/" if topdir else "") + "s/" + n
            ref[n] = "s/" + n
        else:
            place[n] = "o/" + n
            ref[n] = rng.choice(["./o/" + n, casedir + "/o/" + n, "../" + os.path.basename(casedir) + "/o/" + n])
    top_cmd = cmd_name(place["A"])
    dtop = spec_dir(top_cmd)

    def resolved(n):
        r = ref[n]
        return r if r.startswith(("/", "./", "../")) else dtop + "/" + r

    altseen = []

    def spellings(n):
        """the ways an include line may spell file n that RESOLVE TO THE SAME PATH STRING: the bare name (looked
        up in the top file's directory), and that directory + "/" + name written out when it is a path used as
        given (./B next to B when pdsh runs in the top directory, /abs/dir/B, ./t/B, ../case/t/B)"""
        r = ref[n]
        out = [r, r]
        full = dtop + "/" + r
        if not r.startswith(("/", "./", "../")) and full.startswith(("/", "./", "../")):
            out.append(full)
            altseen.append(full)
        return out
    # include graph
    shape = rng.choice(["chain", "tree", "diamond", "cycle", "cycle-top", "self", "random", "none"])
    edges = {n: [] for n in names}
    if nfiles > 1:
        if shape == "chain":
            for a, b in zip(names, names[1:]):
                edges[a].append(b)
        elif shape in ("tree", "none"):
            for i, n in enumerate(names[1:], 1):
                edges[names[rng.randrange(0, i)]].append(n)
        elif shape == "diamond":
            for i, n in enumerate(names[1:], 1):
                edges[names[rng.randrange(0, i)]].append(n)
            for _ in range(rng.randrange(1, 4)):
                a, b = rng.choice(names), rng.choice(names[1:])
                if a != b:
                    edges[a].append(b)
        elif shape == "cycle":
            for a, b in zip(names, names[1:]):
                edges[a].append(b)
            edges[names[-1]].append(rng.choice(names[1:]))
        elif shape == "cycle-top":
            for a, b in zip(names, names[1:]):
                edges[a].append(b)
            edges[names[-1]].append("A")
        elif shape == "self":
            for a, b in zip(names, names[1:]):
                edges[a].append(b)
            s = rng.choice(names)
            edges[s].append(s)
        else:
            for _ in range(rng.randrange(1, 2 * nfiles)):
                edges[rng.choice(names)].append(rng.choice(names))
    elif shape in ("self", "cycle-top", "cycle"):
        edges["A"].append("A")
    missing = set()
    unreadable = set()
    if stream == "broken":
        k = rng.choice(names)
        (missing if rng.random() < 0.5 else unreadable).add(k)
        if rng.random() < 0.3:
            edges[rng.choice(names)].append("Z")      # a name that does not exist at all
            ref["Z"] = "Z"
    files = {}
    for n in names:
        lines = []
        inc = list(edges[n])
        rng.shuffle(inc)
        nl = rng.randrange(0, 6 if nfiles < 6 else 4)
        slots = sorted(rng.randrange(0, nl + 1) for _ in inc)
        k = 0
        for i in range(nl + 1):
            while k < len(inc) and slots[k] == i:
                lines.append("#include" + rng.choice([" ", "\t", "  ", " \t"]) + rng.choice(spellings(inc[k])) +
                             rng.choice(["", "", " ", "\t"]))
                k += 1
            if i < nl:
                r = rng.random()
                if r < 0.6:
                    lines.append(rng.choice(EXPRS))
                elif r < 0.9:
                    lines.append(rng.choice(NOISE))
                else:
                    lines.append(rng.choice(EXPRS))
        if stream == "long" and (n == "A" or rng.random() < 0.3):
            step = LINEBUF[0] - 1
            for _ in range(rng.randrange(1, 3)):
                if rng.random() < 0.6:
                    # with its newline the line is one byte short of / exactly / one byte more than k buffers
                    tgt = rng.choice([1, 2, 3]) * step + rng.choice([-2, -1, 0])
                else:
                    tgt = rng.choice([2040, 2045, 2046, 2047, 2048, 2049, 2050, 2056, 4090, 4094, 4095, 4096, 4100, 1020,
                                      1023, 1024, 1030, 6141, 6142, 2700, rng.randrange(2000, 9000),
                                      rng.choice([20000, 65536, 102400])])
                if rng.random() < 0.2:
                    lines.append(long_line(rng, tgt))           # the LAST line (with or without its newline)
                else:
                    at = rng.randrange(0, len(lines) + 1)
                    lines.insert(at, long_line(rng, tgt))
                    if rng.random() < 0.7:
                        lines.insert(at + 1, rng.choice(["foo1", "n[1-3]", "q", "host.dom", "#include " + ref[n]]))
        if stream == "malformed":
            for _ in range(rng.randrange(1, 4)):
                lines.insert(rng.randrange(0, len(lines) + 1), rng.choice(MALFORMED))
        content = "\n".join(lines)
        if lines and rng.random() < 0.85:
            content += "\n"
        files[n] = content
    fs = {}
    disk = {}
    for n in names:
        if n in missing:
            continue
        rd = n not in unreadable
        disk[place[n]] = (rd, files[n])
        fs[resolved(n)] = (rd, files[n])
    for nm, content in decoys.items():
        if nm not in disk:
            disk[nm] = (True, content)
    fs_top = dict(fs)
    if "A" not in missing:
        fs_top[top_cmd] = ("A" not in unreadable, files["A"])
    # sources
    sources = []
    kind = rng.choices(["file", "mixed", "env", "env+w", "stdin"], [40, 35, 8, 5, 12])[0]
    stdin = None
    env = None
    if kind == "file":
        sources = [("f", top_cmd)]
    elif kind == "env":
        env = top_cmd
    elif kind == "env+w":
        env = top_cmd
        sources = [("w", rng.choice(["w1", "w[1-2]"]))]
    else:
        pool = [("f", top_cmd), ("w", "w1"), ("w", "w[2-3]"), ("w", "v[1,4]z"), ("s",), ("w", "u")]
        if kind == "stdin":
            sources = [("s",)] + ([("f", top_cmd)] if rng.random() < 0.5 else [])
        else:
            sources = [rng.choice(pool) for _ in range(rng.randrange(1, 5))]
            if rng.random() < 0.7 and ("f", top_cmd) not in sources:
                sources.insert(rng.randrange(0, len(sources) + 1), ("f", top_cmd))
        rng.shuffle(sources)
        if any(s == ("s",) for s in sources):
            sl = [rng.choice(EXPRS + NOISE) for _ in range(rng.randrange(0, 4))]
            if topdir == "" and style in ("rel", "dot") and len(names) > 1 and rng.random() < 0.4:
                t = rng.choice([n for n in names if ref[n] == n] or ["A"])
                sl.insert(rng.randrange(0, len(sl) + 1), "#include " + t)
            stdin = "\n".join(sl) + ("\n" if sl else "")
        if rng.random() < 0.15:
            env = top_cmd
    # exclusion files (-x ^F[,^G] / -^F): files of the top directory, named in the command-line style
    if stream in ("plain", "broken", "long") and rng.random() < 0.3:
        cand = [n for n in names if ref[n] == n]
        brokenc = [n for n in cand if n in missing or n in unreadable]
        pos = rng.randrange(0, len(sources) + 1)
        for _ in range(rng.choice([1, 2, 2])):
            xn = rng.choice(brokenc) if (brokenc and rng.random() < 0.5) else rng.choice(cand)
            xp = cmd_name(place[xn])
            if xn not in missing:
                fs_top[xp] = (xn not in unreadable, files[xn])
            sources.insert(pos, ("x", xp))
            if rng.random() < 0.3:
                pos = rng.randrange(0, len(sources) + 1)
    # command line: consecutive sources joined by commas or given as separate -w options
    argv = []
    cur = []
    for s in sources:
        word = "^" + s[1] if s[0] == "f" else s[1] if s[0] == "w" else "-^" + s[1] if s[0] == "x" else None
        if s[0] == "x" and rng.random() < 0.6:
            if cur:
                argv.append(",".join(cur))
                cur = []
            if argv and not isinstance(argv[-1], str) and rng.random() < 0.7:
                argv[-1] = ("x", argv[-1][1] + ",^" + s[1])      # -x ^F,^G
            else:
                argv.append(("x", "^" + s[1]))
            continue
        if s[0] == "s" and (rng.random() < 0.6 or not cur):
            if cur:
                argv.append(",".join(cur))
                cur = []
            argv.append("-")
            continue
        if word is None:
            word = "^-"
        if cur and rng.random() < 0.5:
            argv.append(",".join(cur))
            cur = []
        cur.append(word)
    if cur:
        argv.append(",".join(cur))
    alt = any(("#include" in l and any(l.split()[-1:] == [a] for a in altseen))
              for ct in files.values() for l in ct.split("\n"))
    return {"stream": stream, "shape": shape, "disk": disk, "fs": fs_top, "sources": sources, "wargs": argv,
            "stdin": stdin, "env": env, "casedir": casedir, "nfiles": len(names), "alt_spelling": alt}


def gen_wide(rng, casedir, limit):
    """MANY skipped duplicate includes — more than the descriptor limit the case runs under: K files that all include
    one common file (a wide diamond), or one two-file cycle entered K times, or a file including itself K times;
    the list the specification says is short (most of the K files hold no host of their own)"""
    k = limit + rng.randrange(4, 24)
    d = rng.choice(["site", "t/u", "w"])
    shape = rng.choice(["fan-diamond", "fan-diamond", "fan-cycle", "fan-self"])
    files = {}
    top = []
    sp = lambda: rng.choice([" ", "\t", "  "])
    if shape == "fan-diamond":
        files["common"] = rng.choice(["login1\n", "login[1-2]\n# shared\n", "c1\nc2"])
        own = set(rng.sample(range(k), rng.randrange(0, 4)))
        for i in range(k):
            body = ["# rack %d" % i] if rng.random() < 0.3 else []
            body.append("#include" + sp() + "common")
            if i in own:
                body.insert(rng.randrange(0, len(body) + 1), "r%dn[1-2]" % i)
            files["rack%d" % i] = "\n".join(body) + "\n"
            top.append("#include" + sp() + "rack%d" % i)
    elif shape == "fan-cycle":
        files["cyc_a"] = "a1\n#include cyc_b\n"
        files["cyc_b"] = "b1\n#include" + sp() + "cyc_a\n"
        top = ["#include" + sp() + rng.choice(["cyc_a", "cyc_a", "cyc_b"]) for _ in range(k)]
    else:
        files["me"] = "m1\n" + "".join("#include me\n" for _ in range(k)) + "m2\n"
        top = ["#include me"]
    for _ in range(rng.randrange(0, 3)):
        top.insert(rng.randrange(0, len(top) + 1), rng.choice(["z1", "tail[8-9]", "# note"]))
    files["all"] = "\n".join(top) + "\n"
    fs = {d + "/" + n: (True, ct) for n, ct in files.items()}
    topcmd = d + "/all"
    kind = rng.choice(["file", "file", "env", "xfile"])
    if kind == "file":
        sources, wargs, env = [("f", topcmd)], ["^" + topcmd], None
    elif kind == "env":
        sources, wargs, env = [], [], topcmd
    else:
        sources, wargs, env = [("w", "z[1-3]"), ("x", topcmd)], ["z[1-3]", ("x", "^" + topcmd)], None
    return {"stream": "wide", "shape": shape, "disk": dict(fs), "fs": dict(fs), "sources": sources, "wargs": wargs,
            "stdin": None, "env": env, "casedir": casedir, "nfiles": len(files), "alt_spelling": False,
            "nofile": limit, "duplicates": k}


def gen_empty_src(rng, casedir):
    """explicit sources that name NO host (empty file, comments only, an include of an empty file, empty stdin)
    while WCOLL names a DIFFERENT file that does: a source was given, so WCOLL is not consulted and the list is
    empty ("no remote hosts specified"); mixed with the same command lines where one source does name a host"""
    d = rng.choice(["e/", "t/u/"])        # (includes resolve to DIR/NAME: the same strings as the command line's)
    empties = {"E": rng.choice(["", "\n", "# nothing\n", "  \n#\n", "#include Z\n"]), "Z": rng.choice(["", "# z\n"])}
    wc = rng.choice(["h1\n", "h[1-2]\n# c\n", "#include V\n"])
    files = dict(empties)
    files["W"] = wc
    files["V"] = "v1\n"
    fs = {d + n: (True, ct) for n, ct in files.items()}
    pool = [("f", d + "E"), ("f", d + "Z"), ("s",)]
    sources = [rng.choice(pool) for _ in range(rng.randrange(1, 4))]
    if rng.random() < 0.25:
        sources.insert(rng.randrange(0, len(sources) + 1), ("w", "k1"))
    if rng.random() < 0.3:
        sources.append(("x", d + rng.choice(["E", "W"])))
    stdin = rng.choice(["", "# no host here\n", "\n\n"]) if ("s",) in sources else None
    env = rng.choice([d + "W", d + "W", d + "W", None])
    wargs = []
    for sc in sources:
        wargs.append("^" + sc[1] if sc[0] == "f" else sc[1] if sc[0] == "w" else "-" if sc[0] == "s" else ("x", "^" + sc[1]))
    return {"stream": "plain", "shape": "empty-source", "disk": dict(fs), "fs": dict(fs), "sources": sources,
            "wargs": wargs, "stdin": stdin, "env": env, "casedir": casedir, "nfiles": len(files), "alt_spelling": False}


# ------------------------------------------------------------------ pinned cases: run FIRST in every run, no randomness
def fs_alias(disk, casedir):
    """the path STRINGS under which the reader may come to a file on disk (pdsh runs in casedir): as it is, with
    `./`, absolute, and through `../<case directory>/`"""
    fs = {}
    bn = os.path.basename(casedir)
    for p, v in disk.items():
        for key in (p, "./" + p, casedir + "/" + p, "../" + bn + "/" + p):
            fs[key] = v
    return fs


def pinned_cases(base, linebuf):
    """the classes every quick run must cover, enumerated (no draw decides whether a class is reached):
    every source kind alone and in every ordered pair x WCOLL unset/set x separate/comma-joined options; WCOLL alone
    naming a good / missing / unreadable / empty file or `-`; every include-name spelling x every command-line style
    with the current directory != the file's directory and decoys where a wrong lookup would land; nested lookups
    (directory of the COMMAND-LINE file, not of the including file); chains, diamonds, cycles, cycle to top,
    self-include, the same file under two spellings; line lengths k*(LINEBUFSIZE-1)+{-1,0,+1} (k=1,2,3) with a
    following line and as an unterminated last line, in a top file, an included file and stdin; lexical forms;
    `#include` look-alikes; missing / unreadable files at every depth; more skipped duplicates than descriptors"""
    import random
    out = []

    def add(tag, disk, sources, wargs, stdin=None, env=None, stream="plain", shape="pinned", nofile=None, fs=None, **kw):
        casedir = os.path.join(base, "p%d" % len(out))
        if callable(disk):
            disk = disk(casedir)
        if callable(sources):
            sources, wargs, env = sources(casedir)
        c = {"stream": stream, "shape": shape, "pin": tag, "disk": dict(disk),
             "fs": fs_alias(disk, casedir) if fs is None else fs, "sources": sources, "wargs": wargs, "stdin": stdin,
             "env": env, "casedir": casedir, "nfiles": len(disk), "alt_spelling": kw.get("alt", False)}
        if nofile:
            c["nofile"] = nofile
        out.append(c)
        return c

    # ---- A. sources: alone and in every ordered pair, WCOLL unset / set, separate options / one comma-joined option
    base_disk = {"t/A": (True, "a1\n#include B\na2\n"), "t/B": (True, "b[1-2]\n"), "t/E": (True, "# nothing here\n\n \t\n"),
                 "t/W": (True, "wc1\n#include B\n"), "t/X": (True, "b1 # out of service\n"), "t/U": (False, "u1\n"),
                 "t/Z": (True, ""), "B": (True, "decoy-b\n")}
    kinds = {"w": (("w", "w[1-2]"), "w[1-2]"), "v": (("w", "v7"), "v7"), "f": (("f", "t/A"), "^t/A"), "s": (("s",), "^-"),
             "e": (("f", "t/E"), "^t/E"), "x": (("x", "t/X"), "-^t/X")}
    STDIN = "s1\n# c\n s2 \n#include t/B\n"          # (stdin's includes are looked up in `.`: t/B is ./t/B)
    combos = [[k] for k in "wfsex"] + [[a, ("v" if (a == b == "w") else b)] for a in "wfsex" for b in "wfsex"]
    for combo in combos:
        for env in (None, "t/W"):
            for joined in (False, True):
                srcs = [kinds[k][0] for k in combo]
                if joined:
                    wargs = [",".join(kinds[k][1] for k in combo)]
                    if len(combo) == 1 and combo[0] not in "sx":
                        continue            # (one piece: the separate form is the same command line)
                else:
                    wargs = [("x", "^t/X") if k == "x" else "-" if k == "s" else kinds[k][1] for k in combo]
                sin = STDIN if "s" in combo else None
                add("src:%s:%s:%s" % ("".join(combo), "wcoll" if env else "noenv", "joined" if joined else "separate"),
                    base_disk, srcs, wargs, stdin=sin, env=env)
    # empty stdin as the only source (a source WAS given: WCOLL must not be consulted), empty file + empty stdin
    for sin in ("", "# no host\n\n"):
        add("src:empty-stdin", base_disk, [("s",)], ["-"], stdin=sin, env="t/W")
        add("src:empty-file+empty-stdin", base_disk, [("f", "t/Z"), ("s",)], ["^t/Z,^-"], stdin=sin, env="t/W")
        add("src:include-of-empty", dict(base_disk, **{"t/I": (True, "#include Z\n# c\n")}), [("f", "t/I")], ["^t/I"],
            env="t/W")
    # WCOLL alone
    for env, sin in (("t/W", None), ("t/missing", None), ("t/U", None), ("t/E", None), ("t/Z", None), ("-", "k1\nk2\n"),
                     ("./t/W", None)):
        add("wcoll-only:%s" % env, base_disk, [], [], stdin=sin, env=env)
    add("wcoll-only:absolute", base_disk, lambda cd: ([], [], cd + "/t/W"), None)
    add("wcoll+exclusion-only", base_disk, [("x", "t/X")], [("x", "^t/X")], env="t/W")
    # WCOLL names a missing / unreadable file but a source is given: it is never opened
    add("wcoll-missing-overridden", base_disk, [("w", "w1")], ["w1"], env="t/missing")
    add("wcoll-unreadable-overridden", base_disk, [("f", "t/A")], ["^t/A"], env="t/U")
    # ---- B. include-name spellings x command-line styles, cwd != directory of the file, decoys
    for style in ("rel", "dot", "abs", "updir"):
        for spell in ("bare", "sub", ".hid", "..two", ".d/in", "./cwd", "../up", "abs", "trail-blanks", "tab-sep"):
            def disk(cd, style=style, spell=spell):
                inc = {"bare": "B", "sub": "s/B", ".hid": ".hidB", "..two": "..twoB", ".d/in": ".d/B", "./cwd": "./o/B",
                       "../up": "../" + os.path.basename(cd) + "/o/B", "abs": cd + "/o/B", "trail-blanks": "B \t ",
                       "tab-sep": "B"}[spell]
                sep = "\t \t" if spell == "tab-sep" else " "
                d = {"t/A": (True, "a1\n#include%s%s\na2\n" % (sep, inc))}
                name = inc.strip(" \t")
                if spell in ("./cwd", "../up", "abs"):
                    d["o/B"] = (True, "right[1-2]\n")
                    d["t/o/B"] = (True, "decoy-next-to-top\n")
                else:
                    d["t/" + name] = (True, "right[1-2]\n")
                    d[name] = (True, "decoy-in-cwd\n")
                return d

            def srcs(cd, style=style):
                top = {"rel": "t/A", "dot": "./t/A", "abs": cd + "/t/A", "updir": "../" + os.path.basename(cd) + "/t/A"}[style]
                return [("f", top)], ["^" + top], None
            add("spell:%s:%s" % (style, spell), disk, srcs, None)
    # the top file in the current directory (dirname = `.`)
    add("spell:cwd-top", {"A": (True, "a1\n#include B\n#include s/C\n"), "B": (True, "b1\n"), "s/C": (True, "c1\n#include B\n")},
        [("f", "A")], ["^A"])
    # nested lookups: the directory of the file NAMED ON THE COMMAND LINE, not of the including file
    nested = {"t/A": (True, "a1\n#include s/B\na2\n"), "t/s/B": (True, "b1\n#include C\n#include s/D\nb2\n"),
              "t/C": (True, "c-right\n"), "t/s/C": (True, "c-decoy-next-to-includer\n"), "C": (True, "c-decoy-in-cwd\n"),
              "t/s/D": (True, "d-right\n#include C\n"), "t/s/s/D": (True, "d-decoy\n")}
    for style in ("rel", "dot", "abs"):
        add("nested-lookup:%s" % style, nested,
            lambda cd, style=style: (lambda top: ([("f", top)], ["^" + top], None))(
                {"rel": "t/A", "dot": "./t/A", "abs": cd + "/t/A"}[style]), None)
    add("nested-lookup:wcoll", nested, [], [], env="t/A")
    add("nested-lookup:exclusion-file", nested, [("w", "c-right,keep1"), ("x", "t/A")], ["c-right,keep1", ("x", "^t/A")])
    # an include only the including file's directory holds: an error (not found in the command-line file's directory)
    add("nested-lookup:only-next-to-includer", {"t/A": (True, "#include s/B\n"), "t/s/B": (True, "#include K\n"),
                                                "t/s/K": (True, "k1\n")}, [("f", "t/A")], ["^t/A"], stream="broken")
    # ---- C. include graphs
    graphs = {
        "chain": {"A": "a1\n#include B\na2\n", "B": "b1\n#include C\nb2\n", "C": "c1\n#include D\nc2\n", "D": "d1\n"},
        "diamond": {"A": "#include L\n#include R\na9\n", "L": "l1\n#include D\n", "R": "#include D\nr1\n", "D": "d[1-2]\n"},
        "twice": {"A": "#include D\nmid\n#include D\n#include D\n", "D": "d1\n"},
        "cycle": {"A": "a1\n#include B\na2\n", "B": "b1\n#include C\nb2\n", "C": "c1\n#include B\nc2\n"},
        "cycle-top": {"A": "a1\n#include B\na2\n", "B": "b1\n#include A\nb2\n"},
        "self-top": {"A": "a1\n#include A\na2\n"},
        "self-inner": {"A": "a1\n#include B\na2\n", "B": "b1\n#include B\n#include B\nb2\n"},
        "wide-tree": {"A": "".join("#include F%d\n" % i for i in range(8)),
                      **{"F%d" % i: "f%d\n#include Z\n" % i for i in range(8)}, "Z": "z1\n"},
    }
    for gname, files in graphs.items():
        d = {"t/" + n: (True, ct) for n, ct in files.items()}
        add("graph:%s" % gname, d, [("f", "t/A")], ["^t/A"], shape=gname if gname in ("chain", "diamond", "cycle", "cycle-top") else "pinned")
        add("graph:%s:wcoll" % gname, d, [], [], env="t/A")
        add("graph:%s:between-words" % gname, d, [("w", "w1"), ("f", "t/A"), ("w", "w2")], ["w1,^t/A,w2"])
    # the same file under two spellings that resolve to the SAME path string: skipped; to different strings: read
    for style in ("rel", "dot", "abs"):
        def disk2(cd, style=style):
            dtop = {"rel": "t", "dot": "./t", "abs": cd + "/t"}[style]
            other = "./t/B" if style == "rel" else dtop + "/B"     # rel: `t/B` vs `./t/B` are two strings (read twice)
            return {"t/A": (True, "#include B\n#include %s\n#include L\nend\n" % other), "t/B": (True, "b1\n"),
                    "t/L": (True, "l1\n#include %s\n#include B\n" % other)}
        add("two-spellings:%s" % style, disk2,
            lambda cd, style=style: (lambda top: ([("f", top)], ["^" + top], None))(
                {"rel": "t/A", "dot": "./t/A", "abs": cd + "/t/A"}[style]), None, alt=True)
    # ---- D. line lengths around k buffers, followed by a line / as the unterminated last line / elsewhere
    step = linebuf - 1
    for k in (1, 2, 3):
        for delta in (-1, 0, 1):
            r = random.Random(1000 * k + delta + 7)
            n = k * step + delta - 1            # the line with its newline is delta bytes off k buffers
            line = long_line(r, n, fill=[",", " ", "\t"][k - 1], comment=False, linebuf=linebuf)
            add("len:%d*%d%+d:followed" % (k, step, delta), {"t/A": (True, "first\n" + line + "\nnext1,next2\nlast\n")},
                [("f", "t/A")], ["^t/A"], stream="long")
            add("len:%d*%d%+d:last-unterminated" % (k, step, delta), {"t/A": (True, "first\n" + line)},
                [("f", "t/A")], ["^t/A"], stream="long")
            add("len:%d*%d%+d:last-terminated" % (k, step, delta), {"t/A": (True, line + "\n")},
                [("f", "t/A")], ["^t/A"], stream="long")
            if k == 1:
                add("len:%d*%d%+d:included" % (k, step, delta),
                    {"t/A": (True, "a1\n#include B\na2\n"), "t/B": (True, line + "\nb-next\n")}, [("f", "t/A")], ["^t/A"],
                    stream="long")
                add("len:%d*%d%+d:stdin" % (k, step, delta), {"t/A": (True, "a1\n")}, [("s",), ("f", "t/A")], ["-", "^t/A"],
                    stdin=line + "\ns-next\n", stream="long")
                add("len:%d*%d%+d:wcoll" % (k, step, delta), {"t/W": (True, line + "\nw-next")}, [], [], env="t/W",
                    stream="long")
                add("len:%d*%d%+d:comment-tail" % (k, step, delta),
                    {"t/A": (True, "h1 #" + line[4:].replace("#", " ") + "\nafter\n")}, [("f", "t/A")], ["^t/A"], stream="long")
                add("len:%d*%d%+d:all-blank" % (k, step, delta),
                    {"t/A": (True, " " * n + "\nafter\n")}, [("f", "t/A")], ["^t/A"], stream="long")
    # two long lines in a row, each an exact multiple (a reader that glues on "buffer full" loses both boundaries)
    r = random.Random(4711)
    l1 = long_line(r, step - 1, fill=",", comment=False, linebuf=linebuf)
    l2 = long_line(r, 2 * step - 1, fill=" ", comment=False, linebuf=linebuf)
    add("len:two-exact-multiples", {"t/A": (True, l1 + "\n" + l2 + "\nq1\n")}, [("f", "t/A")], ["^t/A"], stream="long")
    # ---- E. lexical forms
    add("lexical", {"t/A": (True, "  a1  \n\ta2\t\n# c\n\n   \n\t\na3 # tail\na4#tail\n#\n#!x\n a5,a6 \n\t n[1-2]\t # t # u\n"
                                  "q7 q8\tq9\n#comment #include B\nh2 #include B\n")}, [("f", "t/A")], ["^t/A"])
    add("lexical:cr", {"t/A": (True, "foo\r\nbar\r\n")}, [("f", "t/A")], ["^t/A"])
    add("lexical:only-noise", {"t/A": (True, "\n\n#\n   \n# x\n\t\n")}, [("f", "t/A")], ["^t/A"])
    add("lexical:no-final-newline", {"t/A": (True, "a1\n  a2  ")}, [("f", "t/A")], ["^t/A"])
    add("lexical:include-last-unterminated", {"t/A": (True, "a1\n#include B"), "t/B": (True, "b1")}, [("f", "t/A")], ["^t/A"])
    # ---- F. `#include` look-alikes (the reader is more liberal than the property text: model correspondence only)
    for i, bad in enumerate(MALFORMED + ["#include\tB", "#include B\t \t", "#INCLUDE B", "# include B", "#include  ",
                                         "##include B", "#include B#c", "#include \"B\"", "#include <B>"]):
        add("lookalike:%d" % i, {"t/A": (True, "a1\n" + bad + "\na2\n"), "t/B": (True, "b1\n"), "t/C": (True, "c1\n"),
                                 "t/\"B\"": (True, "q1\n"), "t/<B>": (True, "angle1\n"), "t/B#c": (True, "hash1\n")},
            [("f", "t/A")], ["^t/A"], stream="malformed")
    # a lone `-` inside a list is NOT stdin (Props/C10 `dash_inside_list_is_not_stdin`); `[rcmd_type:][user@]host` words
    for i, (w, sin) in enumerate([("w1,-", "s1\n"), ("-,w1", "s1\n"), ("w1,^-", "s1\n"), ("^-,^-", "s1\n"), ("user@h1", None),
                                  ("exec:h2", None), ("exec:user@h3", None), ("h4,user@h5", None), ("a@b:c", None),
                                  ("h6::x", None), (" h7", None), ("^ t/B", None)]):
        add("word-forms:%d" % i, {"t/A": (True, "a1\n"), "t/B": (True, "b1\n")}, [("w", w)], [w], stdin=sin, stream="malformed")
    # ---- filters are not sources: a -w argument holding ONLY a /regex/, a -/regex/ or an exclusion word does not create
    # the list — WCOLL is still consulted, and filtered; with a real source next to it WCOLL is not
    fd = {"t/W": (True, "h10\nh11\n#include V\n"), "t/V": (True, "h20,h21\n"), "t/E": (True, "# none\n"), "t/A": (True, "a10\na11\n")}
    FW = {"r": (("r", "0$"), "/0$/"), "xr": (("xr", "0$"), "-/0$/"), "xw": (("xw", "h11"), "-h11"), "r2": (("r", "^h2"), "/^h2/"),
          "w": (("w", "k10,k11"), "k10,k11"), "f": (("f", "t/A"), "^t/A"), "e": (("f", "t/E"), "^t/E"), "s": (("s",), "^-")}
    for combo in (["r"], ["xr"], ["xw"], ["r2"], ["r", "xw"], ["xw", "r"], ["r", "r2"], ["xr", "xw"], ["r", "w"], ["w", "r"],
                  ["xr", "f"], ["f", "xr"], ["r", "e"], ["e", "r"], ["xw", "e"], ["r", "s"], ["s", "xr"], ["xw", "w", "r"]):
        for env in ("t/W", None):
            for joined in (False, True):
                if joined and len(combo) == 1:
                    continue
                srcs = [FW[k][0] for k in combo]
                wargs = [",".join(FW[k][1] for k in combo)] if joined else [("-" if k == "s" else FW[k][1]) for k in combo]
                add("filters:%s:%s:%s" % ("+".join(combo), "wcoll" if env else "noenv", "joined" if joined else "separate"),
                    fd, srcs, wargs, stdin=("s10\ns11\n" if "s" in combo else None), env=env, stream="filters")
        # the same filters given with -x
        if all(k in ("xr", "xw") for k in combo):
            add("filters:%s:-x" % "+".join(combo), fd, [FW[k][0] for k in combo], [("x", ",".join(FW[k][1][1:] for k in combo))],
                env="t/W", stream="filters")
    # ---- G. missing / unreadable at every depth (an ERROR, never a shorter list), also behind hosts already read
    chain = graphs["chain"]
    for depth, victim in enumerate("ABCD"):
        for how in ("missing", "unreadable"):
            d = {"t/" + n: (True, ct) for n, ct in chain.items()}
            if how == "missing":
                del d["t/" + victim]
            else:
                d["t/" + victim] = (False, chain[victim])
            add("broken:%s:depth%d" % (how, depth), d, [("f", "t/A")], ["^t/A"], stream="broken")
            add("broken:%s:depth%d:after-good-sources" % (how, depth), d, [("w", "w1"), ("f", "t/A"), ("w", "w2")],
                ["w1", "^t/A", "w2"], stream="broken")
            add("broken:%s:depth%d:exclusion-file" % (how, depth), d, [("w", "w1"), ("x", "t/A")], ["w1", ("x", "^t/A")],
                stream="broken")
            add("broken:%s:depth%d:wcoll" % (how, depth), d, [], [], env="t/A", stream="broken")
            add("broken:%s:depth%d:wcoll-not-consulted" % (how, depth), d, [("w", "w1")], ["w1"], env="t/A", stream="broken")
    # a file that is unreadable is an error even though a readable file of the same name sits in the current directory
    add("broken:unreadable-with-decoy", {"t/A": (True, "#include B\n"), "t/B": (False, "b1\n"), "B": (True, "decoy\n")},
        [("f", "t/A")], ["^t/A"], stream="broken")
    # ---- H. descriptors: more skipped duplicates than the limit allows, every shape, every way to name the top file
    for si, shape in enumerate(("fan-diamond", "fan-cycle", "fan-self")):
        for kind in ("file", "env", "xfile"):
            limit = 16
            k = limit + 12
            files = {}
            if shape == "fan-diamond":
                files["common"] = "login[1-2]\n"
                top = []
                for i in range(k):
                    files["rack%d" % i] = ("r%dn1\n" % i if i in (0, k - 1) else "") + "#include common\n"
                    top.append("#include rack%d" % i)
            elif shape == "fan-cycle":
                files["cyc_a"] = "a1\n#include cyc_b\n"
                files["cyc_b"] = "b1\n#include cyc_a\n"
                top = ["#include cyc_a" if i % 2 == 0 else "#include cyc_b" for i in range(k)]
            else:
                files["me"] = "m1\n" + "#include me\n" * k + "m2\n"
                top = ["#include me"]
            files["all"] = "\n".join(["z1"] + top + ["tail[8-9]"]) + "\n"
            d = {"site/" + n: (True, ct) for n, ct in files.items()}
            if kind == "file":
                s, w, e = [("f", "site/all")], ["^site/all"], None
            elif kind == "env":
                s, w, e = [], [], "site/all"
            else:
                s, w, e = [("w", "z[1-3]")] + [("x", "site/all")], ["z[1-3]", ("x", "^site/all")], None
            c = add("descriptors:%s:%s" % (shape, kind), d, s, w, env=e, stream="wide", shape=shape, nofile=limit)
            c["duplicates"] = k
    # ---- I. WCOLL set to the EMPTY string, empty option arguments, an empty file name (`^`, `-^`)
    for tag, srcs, wargs, env in (("wcoll-empty", [], [], ""), ("wcoll-empty-overridden", [("w", "w1")], ["w1"], ""),
                                  ("wcoll-empty+exclusion-only", [("xw", "w1")], ["-w1"], ""),
                                  ("w-empty-arg:wcoll", [], [""], "t/W"), ("w-empty-arg:noenv", [], [""], None),
                                  ("w-only-commas:wcoll", [], [",,"], "t/W"), ("x-empty-arg:wcoll", [], [("x", "")], "t/W"),
                                  ("w-empty-arg-then-word", [("w", "w1")], ["", "w1"], "t/W")):
        add("empty:%s" % tag, base_disk, srcs, wargs, env=env)
    add("empty:file-name-empty", base_disk, [("f", "")], ["^"], stream="broken")
    add("empty:file-name-empty:after-word", base_disk, [("w", "w1"), ("f", "")], ["w1,^"], stream="broken")
    add("empty:xfile-name-empty", base_disk, [("w", "w1"), ("x", "")], ["w1", ("x", "^")], stream="broken")
    add("empty:file-name-empty:wcoll-set", base_disk, [("f", "")], ["^"], env="t/W", stream="broken")
    # ---- stdin named more than once, in every position (Props/C10 `later_stdin_sources_are_empty_files`: every later
    # one is an empty file); with an exclusion read from stdin: model correspondence only (stream `malformed`)
    S2 = "s1\n#include t/B\ns2 # c\n"
    for tag, srcs, wargs, env, stream in (
            ("w-w1-w", [("s",), ("w", "w1"), ("s",)], ["-", "w1", "-"], None, "plain"),
            ("joined", [("s",), ("w", "w1"), ("s",)], ["^-,w1,^-"], None, "plain"),
            ("thrice", [("s",), ("s",), ("s",)], ["-", "^-", "-"], "t/W", "plain"),
            ("word-first", [("w", "w1"), ("s",), ("f", "t/A"), ("s",)], ["w1", "-", "^t/A,^-"], None, "plain"),
            ("then-wcoll-dash", [("s",)], ["-"], "-", "plain"),
            ("x-then-w", [], [("x", "^-"), "-"], None, "malformed"),
            ("w-then-x", [], ["-", ("x", "^-")], None, "malformed"),
            ("x-then-wcoll-dash", [], [("x", "^-")], "-", "malformed"),
            ("dash-caret-dash-joined", [], ["^-,w1,-^-"], None, "malformed")):
        add("stdin-twice:%s" % tag, base_disk, srcs, wargs, stdin=S2, env=env, stream=stream)
    # ---- a -w word the parser refuses without a message (unbalanced bracket): an error since /repo d1c94df, wherever it
    # stands and whatever else is named (model correspondence only)
    for i, wargs in enumerate((["b,a[1"], ["a[1,b"], ["a[1"], ["b", "a[1"], ["^t/A,a[1"], ["a[1", "^t/A"], ["b,a]1"], ["a[1,-b"])):
        add("unparsable-word:%d" % i, base_disk, [], wargs, stream="malformed")
    add("unparsable-word:wcoll-not-consulted", base_disk, [], ["a[1"], env="t/W", stream="malformed")
    # ---- J. include names around the reader's path buffer (fq_path[PATHBUF], PATHBUF = PATH_MAX): explicit names
    # (`./`, absolute) of PATHBUF-2, PATHBUF-1 bytes exist and are read; a name of PATHBUF bytes or more CANNOT exist —
    # an error, although a file sits at the name cut to PATHBUF-1 bytes (F10-LONGNAME); bare names are looked up as
    # DIR/NAME: fine up to PATHBUF-1 bytes in all, an error beyond.  (Also: `#include` lines far longer than the line buffer.)
    for L in (300, 1023, 1024, 1025, 2046, 2047, 2048, 2049, 3000, PATHBUF - 3, PATHBUF - 2, PATHBUF - 1):
        rel = long_rel(L, first="./")
        ct = "a1\n#include %s\na2\n" % rel
        add("longname:explicit:%d" % L, {"t/A": (True, ct), rel[2:]: (True, "long%d\n" % L)},
            [("f", "t/A")], ["^t/A"], stream="longname", fs={"t/A": (True, ct), rel: (True, "long%d\n" % L)})
    for L in (PATHBUF, PATHBUF + 1, PATHBUF + 904):
        rel = long_rel(PATHBUF - 1, first="./")
        name = rel + "X" * (L - len(rel))
        ct = "a1\n#include %s\na2\n" % name
        add("longname:explicit-too-long:%d" % L, {"t/A": (True, ct), rel[2:]: (True, "cut-name[1-2]\n")},
            [("f", "t/A")], ["^t/A"], stream="longname", fs={"t/A": (True, ct), rel: (True, "cut-name[1-2]\n")})
    for total in (PATHBUF - 2, PATHBUF - 1):
        name = long_rel(total - 2)                       # looked up as t/NAME
        ct = "a1\n#include %s\na2\n" % name
        add("longname:bare:%d" % total, {"t/A": (True, ct), "t/" + name: (True, "bare%d\n" % total)}, [("f", "t/A")], ["^t/A"],
            stream="longname", fs={"t/A": (True, ct), "t/" + name: (True, "bare%d\n" % total)})
    for total in (PATHBUF, PATHBUF + 1):
        name = long_rel(total - 2)
        ct = "a1\n#include %s\na2\n" % name
        # (a readable decoy sits at DIR/NAME cut to PATHBUF-1 bytes: a lookup that lets snprintf truncate finds it)
        cut = ("t/" + name)[:PATHBUF - 1]
        add("longname:bare-too-long:%d" % total, {"t/A": (True, ct), cut: (True, "cut-bare\n")}, [("f", "t/A")], ["^t/A"],
            stream="broken", fs={"t/A": (True, ct), cut: (True, "cut-bare\n")})
    # the streams read_wcoll opens ITSELF (one per ^file / -x ^file / WCOLL): many file sources on one command line
    tf = {"t/A": (True, "a1\n"), "t/B": (True, "b1\n")}
    for kfiles in (20, 60):
        add("descriptors:top-files:%d" % kfiles, tf, [("f", "t/A")] * kfiles, [",".join(["^t/A"] * kfiles)], stream="wide",
            shape="top-files")
        add("descriptors:top-files-separate:%d" % kfiles, tf, [("f", "t/A"), ("f", "t/B")] * (kfiles // 2),
            ["^t/A", "^t/B"] * (kfiles // 2), stream="wide", shape="top-files")
        add("descriptors:top-xfiles:%d" % kfiles, tf, [("w", "z1,a1")] + [("x", "t/B")] * kfiles,
            ["z1,a1", ("x", ",".join(["^t/B"] * kfiles))], stream="wide", shape="top-files")
    return out


# ------------------------------------------------------------------ running the real pdsh
def materialise(case):
    d = case["casedir"]
    shutil.rmtree(d, ignore_errors=True)
    os.makedirs(d)
    os.chmod(d, 0o755)
    for rel, (rd, content) in case["disk"].items():
        p = os.path.join(d, rel)
        if len(p) >= 4000:
            write_deep(d, rel, content, rd)         # (a path near PATH_MAX: component by component, through directory fds)
            continue
        os.makedirs(os.path.dirname(p), exist_ok=True)
        q = os.path.dirname(p)
        while len(q) >= len(d):
            os.chmod(q, 0o755)
            q = os.path.dirname(q)
        with open(p, "wb") as f:
            f.write(content.encode("latin-1"))
        os.chmod(p, 0o644 if rd else 0)


def write_deep(d, rel, content, rd):
    """create d/rel although the path string is longer than one system call takes (PATH_MAX)"""
    comps = [c for c in rel.split("/") if c not in ("", ".")]
    fd = os.open(d, os.O_RDONLY | os.O_DIRECTORY)
    try:
        for c in comps[:-1]:
            try:
                os.mkdir(c, 0o755, dir_fd=fd)
            except FileExistsError:
                pass
            os.chmod(c, 0o755, dir_fd=fd)
            nfd = os.open(c, os.O_RDONLY | os.O_DIRECTORY, dir_fd=fd)
            os.close(fd)
            fd = nfd
        ffd = os.open(comps[-1], os.O_WRONLY | os.O_CREAT | os.O_TRUNC, 0o644, dir_fd=fd)
        os.write(ffd, content.encode("latin-1"))
        os.fchmod(ffd, 0o644 if rd else 0)
        os.close(ffd)
    finally:
        os.close(fd)


def long_rel(n, first="", last="f"):
    """a relative path of exactly n bytes: `first` then components of 255 bytes, ending in a file component"""
    parts = []
    rem = n - len(first)
    while rem > 256:
        parts.append("a" * 255)
        rem -= 256
    if rem < 1:
        raise ValueError(n)
    parts.append((last * rem)[:rem])
    p = first + "/".join(parts)
    assert len(p) == n, (len(p), n)
    return p


UNPARSED = ["?"]        # a -w word the hostlist parser refuses without a message (`a[1`): "error" (opt.c since /repo d1c94df:
                        # errx "invalid host expression") or "dropped" (before: left out, exit 0) - probed


def unparsable(e):
    return e.count("[") != e.count("]")


PATHBUF = 4096          # sizeof fq_path in wcoll_ctx_read_file = PATH_MAX (Opt/Wcoll.lean `PATHBUF`)
LONGNAME = ["?"]        # "truncated": an explicit include name of PATHBUF bytes or more is cut to PATHBUF-1 bytes and the
                        # file of THAT name is read (F10-LONGNAME, as found); "refused": an error (probed)


def long_explicit_includes(case):
    """the explicit include names (`/`, `./`, `../`) of PATHBUF bytes or more in a case's files and stdin"""
    out = []
    for ct in [v[1] for v in case["disk"].values()] + [case["stdin"] or ""]:
        if len(ct) < PATHBUF:
            continue
        for l in ct.split("\n"):
            if len(l) >= PATHBUF and l.startswith("#include"):
                t = l[8:].split()
                if len(t) == 1 and len(t[0]) >= PATHBUF and t[0].startswith(("/", "./", "../")):
                    out.append(t[0])
    return out


def run_real(pdsh, case, use_exec=False, attempt=0):
    materialise(case)
    env = ["env", "-i", "PATH=/usr/bin:/bin"] + (["WCOLL=" + case["env"]] if case["env"] is not None else [])
    wopts = []
    for o in case["wargs"]:
        k, w = opt_kind(o)
        wopts += ["-" + k, w]
    stdin = (case["stdin"] or "").encode("latin-1")
    # `-Q` prints through a 1024-byte stack buffer that hostlist_deranged_string overruns (another property's
    # defect): lists that may come near it are observed by letting pdsh act on them (-R exec ... echo %n %h: rank and host)
    observe = ["-R", "exec", "-N", "-f", "1"] if use_exec else ["-Q"]
    tail = ["echo", "%n", "%h"] if use_exec else []     # %n = rank of the host in the target list
    # the resource dimension: the file phase runs under a LOW descriptor limit (the reader holds one stream per
    # include level and nothing else, so a small multiple of the deepest include chain is plenty); `wide` cases
    # bring more skipped duplicate includes than the limit.  (exec observation needs pipes per target: no limit)
    nofile = None if use_exec else case.get("nofile", NOFILE_DEFAULT)

    def lower():
        if nofile:
            hard = resource.getrlimit(resource.RLIMIT_NOFILE)[1]
            resource.setrlimit(resource.RLIMIT_NOFILE, (nofile, hard))
    try:
        p = subprocess.run(SETPRIV + env + [pdsh] + observe + wopts + tail, input=stdin, stdout=subprocess.PIPE,
                           stderr=subprocess.PIPE, cwd=case["casedir"], timeout=300, preexec_fn=lower)
    except subprocess.TimeoutExpired:
        return {"rc": "timeout", "hosts": None, "nwarn": 0, "err": "timeout"}
    err = p.stderr.decode("latin-1")
    out = p.stdout.decode("latin-1").split("\n")
    while out and out[-1] == "":
        out.pop()
    hosts = None
    if p.returncode == 0:
        if use_exec:
            ranked = []
            for l in out:
                r, _, h = l.partition(" ")
                ranked.append((int(r) if r.isdigit() else -1, h))
            ranked.sort(key=lambda x: x[0])
            hosts = [h for _, h in ranked]
            if [r for r, _ in ranked] != list(range(len(ranked))):
                # (pdsh's own fanout defect can put several commands in flight under load; not this property's)
                if attempt < 2:
                    shutil.rmtree(case["casedir"], ignore_errors=True)
                    return run_real(pdsh, case, use_exec=True, attempt=attempt + 1)
                hosts = ["<garbled exec output>"] + hosts
        else:
            last = out[-1] if out else ""
            if len(last) > 900:
                shutil.rmtree(case["casedir"], ignore_errors=True)
                return run_real(pdsh, case, use_exec=True)
            hosts = last.split(",") if last else []
    res = {"rc": p.returncode, "hosts": hosts, "err": err[-400:], "via_exec": use_exec, "nofile": nofile,
           "emfile": "Too many open files" in err,
           "nwarn": err.count("warning:") - err.count("not parsed"),
           "nmulti": err.count("included multiple times"),
           "nohosts": "no remote hosts specified" in err}
    shutil.rmtree(case["casedir"], ignore_errors=True)
    return res


def hx(s):
    return hexs(s.encode("latin-1"))


def fs_fields(fs):
    f = [str(len(fs))]
    for path, (rd, content) in fs.items():
        f += [hx(path), "1" if rd else "0", hx(content)]
    return f


def model_line(case, mode):
    f = [mode, hx(case["stdin"]) if case["stdin"] is not None else "~", hx(case["env"]) if case["env"] is not None else "~",
         str(len(case["wargs"]))] + [("X" if opt_kind(o)[0] == "x" else "") + hx(opt_kind(o)[1]) for o in case["wargs"]] + \
        fs_fields(case["fs"])
    return " ".join(f) + "\n"


def spec_line(case):
    srcs = ["s" if s[0] == "s" else "%s:%s" % (s[0], hx(s[1])) for s in case["sources"]
            if s[0] not in ("xw", "r", "xr")]     # w: f: x: s   (exclusion words and regex filters: not in WcollSpec)
    f = [hx(case["stdin"]) if case["stdin"] is not None else "~", hx(case["env"]) if case["env"] is not None else "~",
         str(len(srcs))] + srcs + fs_fields(case["fs"])
    return " ".join(f) + "\n"


def unl(s):
    return [] if s == "~" else [("" if x == "-" else bytes.fromhex(x).decode("latin-1")) for x in s.split(",")]


def max_line(case):
    m = 0
    for _, (rd, content) in case["fs"].items():
        for l in content.split("\n"):
            m = max(m, len(l))
    for l in (case["stdin"] or "").split("\n"):
        m = max(m, len(l))
    return m


BRANCHES = [
    # wcoll_ctx_read_line / include_file
    "line:blank", "line:comment", "line:expr", "line:expr+comment", "line:include", "line:include-invalid(no name)",
    "line:include-invalid(extra token)", "line:include-without-blank", "line:#-not-in-column-0",
    # wcoll_ctx_resolve_path / path_lookup
    "resolve:bare-found", "resolve:bare-hidden(dot name)", "resolve:./", "resolve:../", "resolve:absolute",
    "resolve:second-spelling-same-path", "resolve:colon-in-directory",
    # wcoll_ctx_read_file
    "include:skipped-with-warning", "include:missing-or-unreadable=errx", "include:cycle-back-to-top",
    # wcoll_ctx_read_stream
    "reader:last-line-without-newline", "reader:line>=buffer", "reader:line+nl=k*(buffer-1)-1",
    "reader:line+nl=k*(buffer-1)", "reader:line+nl=k*(buffer-1)+1", "reader:exact-multiple-followed-by-line",
    # read_wcoll / opt.c
    "source:-w word", "source:^file", "source:- (stdin)", "source:^- (stdin)", "source:stdin-twice",
    "source:WCOLL-used", "source:WCOLL-ignored", "source:/regex/ word", "source:-/regex/ word", "source:-word (exclusion)",
    "source:only-filters+WCOLL", "source:-x ^file", "source:-^file word", "source:-x ^F,^G",
    "source:top-missing-or-unreadable=errx", "source:comma-joined -w",
    "outcome:ok", "outcome:errx", "outcome:no-remote-hosts",
]


def branches_of(c, r):
    """which branches of the modelled functions a case drives (from the case and the real run)"""
    b = set()
    step = LINEBUF[0] - 1
    contents = [ct for _, (rd, ct) in c["disk"].items()] + ([c["stdin"]] if c["stdin"] else [])
    for ct in contents:
        ls = ct.split("\n")
        if ls and ls[-1] != "":
            b.add("reader:last-line-without-newline")
        for i, l in enumerate(ls):
            n = len(l) + 1
            if len(l) >= step:
                b.add("reader:line>=buffer")
            if len(l) > 100:
                for d, tag in ((-1, "-1"), (0, ""), (1, "+1")):
                    if (n - d) % step == 0:
                        b.add("reader:line+nl=k*(buffer-1)" + tag)
                        if d == 0 and i + 1 < len(ls) and ls[i + 1].strip():
                            b.add("reader:exact-multiple-followed-by-line")
            if l.strip(" \t") == "":
                b.add("line:blank")
            elif l.startswith("#include"):
                toks = l[8:].split()
                if not (l[8:9] in (" ", "\t")) and toks:
                    b.add("line:include-without-blank")
                elif len(toks) == 0:
                    b.add("line:include-invalid(no name)")
                elif len(toks) > 1:
                    b.add("line:include-invalid(extra token)")
                else:
                    b.add("line:include")
                    t = toks[0]
                    b.add("resolve:absolute" if t.startswith("/") else "resolve:./" if t.startswith("./") else
                          "resolve:../" if t.startswith("../") else
                          "resolve:bare-hidden(dot name)" if t.startswith(".") else "resolve:bare-found")
            elif l.startswith("#"):
                b.add("line:comment")
            elif "#" in l:
                b.add("line:expr+comment" if l.split("#")[0].strip(" \t") else "line:#-not-in-column-0")
            else:
                b.add("line:expr")
    if c.get("alt_spelling"):
        b.add("resolve:second-spelling-same-path")
    if c["stream"] == "colon":
        b.add("resolve:colon-in-directory")
    if c["shape"] == "cycle-top":
        b.add("include:cycle-back-to-top")
    if r.get("nmulti", 0) > 0:
        b.add("include:skipped-with-warning")
    nstdin = 0
    for o in c["wargs"]:
        k, w = opt_kind(o)
        if k == "x":
            b.add("source:-x ^F,^G" if "," in w else "source:-x ^file")
            continue
        if w == "-":
            b.add("source:- (stdin)")
            nstdin += 1
            continue
        pieces = split_top(w, ",")
        if len(pieces) > 1:
            b.add("source:comma-joined -w")
        for pc in pieces:
            if pc == "^-":
                b.add("source:^- (stdin)")
                nstdin += 1
            elif pc.startswith("-^"):
                b.add("source:-^file word")
            elif pc.startswith("/"):
                b.add("source:/regex/ word")
            elif pc.startswith("-/"):
                b.add("source:-/regex/ word")
            elif pc.startswith("-"):
                b.add("source:-word (exclusion)")
            elif pc.startswith("^"):
                b.add("source:^file")
            else:
                b.add("source:-w word")
    if nstdin > 1:
        b.add("source:stdin-twice")
    if c["env"] is not None and c["sources"] and not any(s[0] not in ("xw", "r", "xr") for s in c["sources"]):
        b.add("source:only-filters+WCOLL")
    if c["env"] is not None:
        b.add("source:WCOLL-used" if not any(s[0] not in NOT_A_TARGET_SOURCE for s in c["sources"]) else "source:WCOLL-ignored")
    if r["rc"] == 0:
        b.add("outcome:ok")
    elif r.get("nohosts"):
        b.add("outcome:no-remote-hosts")
    elif r["rc"] == 1:
        b.add("outcome:errx")
        err = r.get("err", "")
        tops = [s[1] for s in c["sources"] if s[0] in ("f", "x")] + ([c["env"]] if c["env"] else [])
        if any(t not in c["fs"] or not c["fs"][t][0] for t in tops):
            b.add("source:top-missing-or-unreadable=errx")
        elif "No such file" in err or "Permission denied" in err:
            b.add("include:missing-or-unreadable=errx")
    return b


def case_json(c):
    return {k: (v if k not in ("fs", "disk") else {p: [rd, (ct if len(ct) < 300 else ct[:120] + "...<%d bytes>" % len(ct))]
                                                   for p, (rd, ct) in v.items()}) for k, v in c.items()} | \
        {"full": {"disk": {p: [rd, ct] for p, (rd, ct) in c["disk"].items()},
                  "fs": {p: [rd, ct] for p, (rd, ct) in c["fs"].items()}},
         "cmd": "cd CASEDIR && %s env -i %spdsh -Q %s" % (" ".join(SETPRIV), ("WCOLL='%s' " % c["env"]) if c["env"] is not None else "",
                                                          " ".join("-%s '%s'" % opt_kind(o) for o in c["wargs"]))}


def case_from_json(j, casedir):
    c = {k: v for k, v in j.items() if k not in ("full", "cmd")}
    old = c["casedir"]

    def mv(s):
        return s.replace(old, casedir).replace(os.path.basename(old), os.path.basename(casedir)) if isinstance(s, str) else s
    c["disk"] = {p: (rd, mv(ct)) for p, (rd, ct) in j["full"]["disk"].items()}
    c["fs"] = {mv(p): (rd, mv(ct)) for p, (rd, ct) in j["full"]["fs"].items()}
    c["sources"] = [tuple(mv(x) for x in s) for s in c["sources"]]
    c["wargs"] = [mv(o) if isinstance(o, str) else ("x", mv(o[1])) for o in c["wargs"]]
    c["env"] = mv(c["env"])
    c["casedir"] = casedir
    return c


def judge(ctx, pdsh, cases, mode, linebuf):
    mlines = ctx.model("wcoll", "".join(model_line(c, mode) for c in cases), args=["model"])

    def predicted_bytes(ml):
        f = ml.split(" ")
        if len(f) != 8 or f[0] != "ok":
            return 0
        return sum(len(h) + 1 for e in unl(f[3]) for h in expand_expr(e))   # (before exclusion: an upper bound)
    def spec_bytes(c):
        sp = spec_assemble(c) if c["stream"] not in ("malformed", "colon") else ("error",)
        return sum(len(h) + 1 for e in sp[1] for h in expand_expr(e)) if sp[0] == "ok" else 0
    # never observe a list that may come near 1024 bytes through `-Q`
    big = [max(predicted_bytes(ml), spec_bytes(c)) > 850 for c, ml in zip(cases, mlines)]

    def observe(cb):
        c, use_exec = cb
        r = run_real(pdsh, c, use_exec=use_exec)
        if r["rc"] == "timeout" or (isinstance(r["rc"], int) and (r["rc"] < 0 or r["rc"] > 1)):
            # a crash is reported only if it is deterministic: run the same command once more
            r2 = run_real(pdsh, c, use_exec=use_exec)
            if r2["rc"] == r["rc"]:
                r["deterministic_crash"] = True
                return r
            r2["flaky_first_rc"] = r["rc"]
            return r2
        return r
    with ThreadPoolExecutor(max_workers=8) as ex:
        reals = list(ex.map(observe, zip(cases, big)))
    slines = ctx.model("wcoll", "".join(spec_line(c) for c in cases), args=["spec"])
    out = []
    for c, r, ml, sl in zip(cases, reals, mlines, slines):
        v = []
        out.append({"real": r, "model": ml[:300], "verdicts": v})
        if r["rc"] == "timeout" or (isinstance(r["rc"], int) and (r["rc"] < 0 or r["rc"] > 1)):
            v.append(("offender", "crash" if r["rc"] != "timeout" else "timeout",
                      "pdsh exits %s (twice in a row): %s" % (r["rc"], r["err"][-200:])))
            continue
        # ---------------- correspondence: model vs real
        mf = ml.split(" ")
        # only on a tree WITHOUT /repo 8d15944 (F10-TOPFD, probed; mode `+leak`): read_wcoll leaves the stream of every
        # file source open; the model's ghost count says how many, the probe (TOPFD[0]: the number of file sources at which the real pdsh runs out under 40 descriptors)
        # says when that is too many
        exhausted = False
        if len(mf) == 8 and TOPFD[0] and r.get("nofile"):
            exhausted = int(mf[6]) >= TOPFD[0] - (NOFILE_DEFAULT - r["nofile"])
        res_top = out[-1]
        res_top["top_open"] = int(mf[6]) if len(mf) == 8 else None
        longinc = long_explicit_includes(c)
        if len(mf) != 8:
            v.append(("disagreement", "model answer", ml[:200]))
        elif longinc and LONGNAME[0] == "refused":
            pass        # F10-LONGNAME repaired in this tree: the model (Opt/Wcoll.lean `resolve`, the code as found) cuts the
            #             name; `Opt/WcollLongName.lean` `resolveR` refuses it, which is what the oracle below demands
        elif exhausted:
            if not (r["rc"] == 1 and r["emfile"]):
                v.append(("disagreement", "descriptors", "model: %s streams left open by read_wcoll exhaust the limit %s, real rc=%s %s" %
                          (mf[6], r["nofile"], r["rc"], r["err"][-100:])))
        else:
            status, nwarn, created, exprs = mf[0], int(mf[1]), mf[2], unl(mf[3])
            badword = status == "ok" and any(unparsable(e) for e in exprs)
            if badword and UNPARSED[0] == "error":
                # wcoll_arg_process checks hostlist_push (/repo d1c94df): the word is an ERROR, not a silently shorter list
                if r["rc"] != 1 or r["nohosts"]:
                    v.append(("disagreement", "unparsable word", "a -w word does not parse: expected errx, real rc=%s hosts=%r %s" %
                              (r["rc"], (r["hosts"] or [])[:5], r["err"][-100:])))
                continue
            if badword:
                exprs = [e for e in exprs if not unparsable(e)]     # the tree before d1c94df: left out without a word
            mhosts = target_hosts(exprs, unl(mf[4]), model_regex(mf[7]))
            if status == "starved":
                v.append(("disagreement", "model ran out of fuel", ml[:100]))
            elif status == "fatal":
                if r["rc"] != 1 or r["nohosts"]:
                    v.append(("disagreement", "exit", "model: errx, real rc=%s err=%s" % (r["rc"], r["err"][-150:])))
            elif mhosts is None:
                pass        # an excluded name occurs twice among the targets: not compared (see target_hosts)
            else:
                if not mhosts:
                    if r["rc"] != 1 or not r["nohosts"]:
                        v.append(("disagreement", "empty list", "model: no hosts, real rc=%s hosts=%r" %
                                  (r["rc"], (r["hosts"] or [])[:5])))
                elif r["rc"] != 0 or r["hosts"] != mhosts:
                    v.append(("disagreement", "hosts", "real rc=%s %r.. model %r.." %
                              (r["rc"], (r["hosts"] or [])[:8], mhosts[:8])))
                if r["nwarn"] != nwarn:
                    v.append(("disagreement", "warning count", "real %d model %d: %s" % (r["nwarn"], nwarn, r["err"][-200:])))
        # ---------------- oracle: property-level assembly vs real (not for malformed include lines)
        if c["stream"] in ("malformed", "colon"):
            continue
        sp = spec_assemble(c)
        # the Lean specification must say the same as the Python reading of the property
        sf = sl.split(" ")
        lean_sp = ("error",) if sf[0] == "error" else ("ok", unl(sf[2]), int(sf[1]), unl(sf[3])) if len(sf) == 4 \
            else ("bad", sl[:80])
        if lean_sp != sp and not any(s[0] in ("xw", "r", "xr") for s in c["sources"]):
            v.append(("disagreement", "Opt/WcollSpec.lean vs the check's reading of the property",
                      "lean %r python %r" % (str(lean_sp)[:200], str(sp)[:200])))
        bad = None
        if sp[0] == "error":
            if r["rc"] != 1 or r["nohosts"]:
                bad = ("unreadable-not-error", "a source or included file is unreadable/missing but pdsh exits %s with "
                       "hosts %r" % (r["rc"], (r["hosts"] or [])[:6]))
                if longinc and r["rc"] == 0:
                    spt = spec_assemble(c, trunc=PATHBUF - 1)
                    if spt[0] == "ok" and target_hosts(spt[1], spt[3], spec_regex(c)) == r["hosts"]:
                        bad = ("include-name-truncated:explicit-name>=%d-bytes" % PATHBUF,
                               "`#include %s...` names a file of %d bytes that cannot exist; pdsh cuts the name to %d bytes and "
                               "targets the hosts of THAT file %r instead of failing" %
                               (longinc[0][:40], len(longinc[0]), PATHBUF - 1, (r["hosts"] or [])[:6]))
        else:
            hosts = target_hosts(sp[1], sp[3], spec_regex(c))
            if hosts is None:
                pass
            elif not hosts:
                if r["rc"] != 1 or not r["nohosts"]:
                    bad = ("empty-list", "no hosts named, pdsh rc=%s" % r["rc"])
            elif r["rc"] != 0 and exhausted and r["emfile"]:
                bad = ("descriptor-leak:top-level-files", "all %d file sources are readable but pdsh exits %s under RLIMIT_NOFILE=%s: %s "
                       "(read_wcoll never closes the file it opened)" % (int(mf[6]), r["rc"], r["nofile"], r["err"][-120:]))
            elif r["rc"] != 0:
                bad = ("spurious-error", "all sources readable but pdsh exits %s: %s" % (r["rc"], r["err"][-200:]))
            elif r["hosts"] != hosts:
                k = next((i for i, (a, b) in enumerate(zip(r["hosts"], hosts)) if a != b), min(len(hosts), len(r["hosts"])))
                sig = "hosts"
                if max_line(c) >= 2047 and linebuf:
                    sp2 = spec_assemble(c, linebuf=linebuf)
                    if sp2[0] == "ok" and target_hosts(sp2[1], sp2[3], spec_regex(c)) == r["hosts"]:
                        sig = "line-split-by-fgets"
                bad = (sig, "target list differs at position %d: pdsh %r, property %r (list lengths %d / %d)" %
                       (k, r["hosts"][max(0, k - 1):k + 3], hosts[max(0, k - 1):k + 3], len(r["hosts"]), len(hosts)))
            if bad is None and sp[0] == "ok" and r["rc"] == 0 and r["nmulti"] != sp[2]:
                bad = ("skip-warning", "%d file(s) reached a second time, %d warning(s)" % (sp[2], r["nmulti"]))
        if bad:
            v.append(("offender", bad[0], bad[1]))
    return out


def shrink(ctx, pdsh, c, sig, mode, linebuf, budget=25):
    """drop lines of files while the same offender persists"""
    def bad(cand):
        res = judge(ctx, pdsh, [cand], mode, linebuf)[0]
        return any(k == "offender" and s == sig for k, s, _ in res["verdicts"])
    cur = c
    n = 0
    for path in list(c["disk"].keys()):
        rd, content = cur["disk"][path]
        lines = content.split("\n")
        i = 0
        while i < len(lines) and n < budget:
            if lines[i].startswith("#include") or lines[i] == "":
                i += 1
                continue
            cand_lines = lines[:i] + lines[i + 1:]
            newc = "\n".join(cand_lines)
            cand = dict(cur, disk=dict(cur["disk"]), fs=dict(cur["fs"]))
            cand["disk"][path] = (rd, newc)
            for k, (r2, c2) in cur["fs"].items():
                if c2 == content:
                    cand["fs"][k] = (r2, newc)
            n += 1
            if bad(cand):
                cur, lines, content = cand, cand_lines, newc
            else:
                i += 1
    return cur


def run(ctx):
    rng = ctx.rng
    ctx.gen_consts(["wcoll"])
    ctx.lean_build([PROPS, "pdshmodel"])
    ctx.audit(PROPS)
    cov = {"evaluations": 0, "distinct_nontrivial": 0, "samples": [],
           "rule": "PINNED FIRST (checks/c10.py pinned_cases, no randomness, ~330 cases in every run): every source kind alone and in "
                   "every ordered pair x WCOLL unset/set x separate/comma-joined options; WCOLL alone naming a good/missing/"
                   "unreadable/empty file or `-`; every include-name spelling (bare, sub/, .hid, ..two, .d/, ./, ../, absolute, "
                   "trailing blanks, tab separator) x every command-line style (relative, ./, absolute, ../) with decoys where a "
                   "wrong lookup lands; nested lookups (directory of the COMMAND-LINE file); chain/diamond/twice/cycle/cycle-to-top/"
                   "self graphs x 3 source positions; one file under two spellings; line lengths k*(LINEBUFSIZE-1)+{-1,0,+1}, k=1,2,3 "
                   "followed by a line / last unterminated / last terminated / in an included file / stdin / WCOLL / comment tail / all "
                   "blank; lexical forms incl. CR; #include look-alikes; missing and unreadable files at every depth x 5 source "
                   "positions; more skipped duplicates than descriptors (3 shapes x 3 ways to name the top file); 20 and 60 file "
                   "sources on one command line under 40 descriptors; WCOLL='' / empty -w and -x arguments / the empty file name `^`; stdin named "
                   "two and three times in every position (also as an exclusion file); include names around the path buffer (explicit names "
                   "of 300..PATHBUF-1 bytes read, PATHBUF, PATHBUF+1, 5000 bytes with a file at the cut name; bare names with DIR/NAME of "
                   "PATHBUF-2..PATHBUF+1 bytes with a decoy at the cut name).  THEN cases = generated file trees (1-12 files in the top file's directory, a sub-directory or elsewhere; "
                   "include graphs chain/tree/diamond/cycle/cycle-to-top/self/random; include names bare, sub/NAME, "
                   "./, ../, absolute, and names that merely start with dots (.extraB, ..racksB, .d/listB: hidden "
                   "files/sub-directories, with decoy files of the same name in the current directory); pdsh runs in a "
                   "directory other than the top file's in 3 of 4 cases; comments, blanks, trailing comments, final line with and without newline) x "
                   "source lists (^file, -w words, explicit sources that name NO host while WCOLL names a file that does (`empty-source`),  `-`/`^-` = stdin, WCOLL, exclusion files as `-x ^F` or `-^F`, comma-joined "
                   "or separate options, all orders); streams: plain, broken (missing / mode-000 file, run as uid 1000), long (lines around "
                   "1023/2046/2047/2048/4095/6141 and up to 100 KiB made of a few short names placed across the buffer "
                   "boundaries in long runs of blanks/tabs/commas, optional comment tail; every name far below 1023 "
                   "bytes and every list far below the 1024-byte -Q buffer), malformed #include lines and a ':' in the "
                   "directory of the command-line file (both: model correspondence only); RESOURCES: every -Q run is made under "
                   "RLIMIT_NOFILE=40, and `wide` cases (K files all including one common file / a cycle entered K times / "
                   "a file naming itself K times) bring K = limit+4..limit+23 SKIPPED duplicate includes under a limit "
                   "of 16..128 descriptors — the reader may hold one stream per include level, no more; non-trivial = at least two files or a line of 2047+ bytes; distinct = "
                   "distinct (tree, command line)"}
    repo = ctx.repo_build()
    if repo:
        os.chmod(ctx.scratch, 0o755)
        pdsh = os.path.join(repo, "src", "pdsh", "pdsh")
        base = os.path.join(ctx.scratch, "c10")
        os.makedirs(base, exist_ok=True)
        os.chmod(base, 0o755)
        linebuf = LINEBUF[0] = int(re.search(r"WCOLL_LINEBUFSIZE : Nat := (\d+)",
                                open(os.path.join(os.path.dirname(os.path.dirname(os.path.abspath(__file__))), "lean",
                                                  "PdshVerif", "Gen", "Wcoll.lean")).read()).group(1))
        # which reader is this?  decided on the real binary so that the model mirrors either form
        probe = {"stream": "probe", "disk": {"A": (True, "x" * (3 * linebuf) + "\n")}, "fs": {"A": (True, "")},
                 "sources": [("f", "A")], "wargs": ["^A"], "stdin": None, "env": None,
                 "casedir": os.path.join(base, "probe")}
        pr = run_real(pdsh, probe)
        splits = pr["hosts"] is not None and len(pr["hosts"]) > 1
        # F: every fgets piece parsed on its own (D12); G: the repaired reader AS WRITTEN — pieces of the same buffer
        # glued until one holds a newline (byte-level model; Props/C10 `glued_pieces_whole`: = whole lines)
        mode = ("F%d" % linebuf) if splits else ("G%d" % linebuf)
        # read_wcoll closes the file it opened (/repo 8d15944; the model's default).  Probe for the older form
        # (F10-TOPFD, a `fixed` finding: reported as a VIOLATION with the pinned command line): the smallest number of `^file` sources on one
        # command line that runs out of NOFILE_DEFAULT descriptors (none up to 64: it closes them)
        TOPFD[0] = 0
        for kf in (64, 40, 39, 38, 37, 36, 35, 34, 33, 32, 31, 30, 28, 24, 16):
            pc = {"stream": "probe", "disk": {"A": (True, "a1\n")}, "fs": {}, "sources": [], "wargs": [",".join(["^A"] * kf)],
                  "stdin": None, "env": None, "casedir": os.path.join(base, "probe")}
            pr2 = run_real(pdsh, pc)
            if pr2["rc"] == 1 and pr2["emfile"]:
                TOPFD[0] = kf
            else:
                break
        q = subprocess.run([pdsh, "-Q", "-w", "b,a[1"], stdout=subprocess.PIPE, stderr=subprocess.PIPE)
        UNPARSED[0] = "error" if q.returncode == 1 else "dropped"
        # F10-LONGNAME (open): an explicit include name of PATHBUF bytes or more — cut and read (as found) or refused?
        rel = long_rel(PATHBUF - 1, first="./")
        pl = {"stream": "probe", "disk": {"A": (True, "#include %sX\n" % rel), rel[2:]: (True, "cut1\n")}, "fs": {},
              "sources": [], "wargs": ["^A"], "stdin": None, "env": None, "casedir": os.path.join(base, "probe")}
        pr3 = run_real(pdsh, pl)
        LONGNAME[0] = "truncated" if (pr3["rc"] == 0 and pr3["hosts"] == ["cut1"]) else "refused"
        if TOPFD[0]:
            mode += "+leak"         # the reader BEFORE /repo 8d15944 (the model's default is the code that closes)
        # the small expander agrees with the real parser on the generator's expressions
        for e in EXPRS + ["w[2-3]", "v[1,4]z"]:
            word = e.split("#")[0].strip(" \t")
            if " " in word:
                continue
            q = subprocess.run([pdsh, "-Q", "-w", word], stdout=subprocess.PIPE, stderr=subprocess.PIPE)
            last = [l for l in q.stdout.decode().split("\n") if l][-1:] or [""]
            if last[0].split(",") != expand_expr(word):
                ctx.disagreement("small expander vs real parser", "%r: pdsh %r expander %r" % (word, last, expand_expr(word)))
        if ctx.replay:
            j = json.load(open(ctx.replay))
            cases = [case_from_json(j["case"]["case"], os.path.join(base, "replay"))]
        else:
            n = 900 if ctx.quick() else 12000
            cases = pinned_cases(base, linebuf)
            # the witnesses of Props/C10.lean `include_line_restriction_forced`, run on the real pdsh (model
            # correspondence: the real binary must do what the reader side of the witness does), and an
            # ordinary line with CR (inside the theorem's and the oracle's domain)
            for wi, (wstream, a_content) in enumerate([("malformed", "#includeB\n"), ("malformed", "#include B C\nx1\n"),
                                                       ("malformed", "#include B\r\n"), ("plain", "foo\r\nbar\n")]):
                wd = {"d/A": (True, a_content), "d/B": (True, "b1\n")}
                cases.append({"stream": wstream, "shape": "witness", "disk": dict(wd), "fs": dict(wd), "sources": [("f", "d/A")],
                              "wargs": ["^d/A"], "stdin": None, "env": None, "casedir": os.path.join(base, "w%d" % wi),
                              "nfiles": 2, "alt_spelling": False})
            for i in range(n):
                stream = rng.choices(["plain", "broken", "long", "malformed", "colon"], [48, 18, 17, 13, 4])[0]
                cases.append(gen_case(rng, stream, os.path.join(base, "k%d" % i)))
            for i in range(8 if ctx.quick() else 60):
                cases.insert(rng.randrange(0, len(cases) + 1),
                             gen_wide(rng, os.path.join(base, "wide%d" % i), rng.choice([16, 24, 32, 64, 128])))
            for i in range(24 if ctx.quick() else 300):
                cases.insert(rng.randrange(0, len(cases) + 1), gen_empty_src(rng, os.path.join(base, "es%d" % i)))
            if not ctx.quick():
                # every line length around the buffer boundaries x 3 line shapes
                k = 0
                for L in list(range(2040, 2057)) + list(range(4090, 4101)) + list(range(6138, 6146)):
                    for shape in ("names", "tabs", "comment-tail"):
                        if shape == "names":
                            line = long_line(rng, L, fill=",", comment=False)
                        elif shape == "tabs":
                            line = long_line(rng, L, fill="\t", comment=False)
                        elif shape == "comment-tail":
                            line = "host1 #" + long_line(rng, L - 7, fill=" ", comment=False)
                        content = "first\n" + line + "\nlast\n"
                        cases.append({"stream": "long", "shape": "boundary", "disk": {"A": (True, content)},
                                      "fs": {"A": (True, content)}, "sources": [("f", "A")], "wargs": ["^A"],
                                      "stdin": None, "env": None, "casedir": os.path.join(base, "b%d" % k), "nfiles": 1})
                        k += 1
        dist = {"streams": {}, "shapes": {}, "files": {}, "rc": {}, "reader": mode,
                "explicit_include_name_of_%d_bytes_or_more" % PATHBUF: LONGNAME[0],
                "unparsable_w_word": UNPARSED[0],
                "read_wcoll_leaves_its_file_open(file sources that exhaust %d descriptors)" % NOFILE_DEFAULT: TOPFD[0], "max_line_ge_2047": 0,
                "with_stdin": 0, "with_env": 0, "skips": 0, "branches": {b: 0 for b in BRANCHES}}
        distinct = set()
        nshrunk = 0
        CH = 300
        for start in range(0, len(cases), CH):
            chunk = cases[start:start + CH]
            results = judge(ctx, pdsh, chunk, mode, linebuf if splits else None)
            for c, res in zip(chunk, results):
                cov["evaluations"] += 1
                r = res["real"]
                dist["streams"][c["stream"]] = dist["streams"].get(c["stream"], 0) + 1
                dist["shapes"][c["shape"]] = dist["shapes"].get(c["shape"], 0) + 1
                if c.get("pin"):
                    pk = c["pin"].split(":")[0]
                    dist.setdefault("pinned_classes", {})[pk] = dist.setdefault("pinned_classes", {}).get(pk, 0) + 1
                dist["files"][str(c["nfiles"])] = dist["files"].get(str(c["nfiles"]), 0) + 1
                dist["rc"][str(r["rc"])] = dist["rc"].get(str(r["rc"]), 0) + 1
                dist["with_stdin"] += 1 if c["stdin"] is not None else 0
                dist["with_env"] += 1 if c["env"] is not None else 0
                if any(x[0] == "x" for x in c["sources"]):
                    dist["with_exclusion_file"] = dist.get("with_exclusion_file", 0) + 1
                    sp0 = spec_assemble(c) if c["stream"] not in ("malformed", "colon") else ("error",)
                    if sp0[0] == "ok" and target_hosts(sp0[1], sp0[3]) is None:
                        dist["exclusion_list_not_compared"] = dist.get("exclusion_list_not_compared", 0) + 1
                dist["skips"] += r.get("nmulti", 0)
                dist["max_skips_in_one_run"] = max(dist.get("max_skips_in_one_run", 0), r.get("nmulti", 0))
                if r.get("nofile"):
                    dist["run_under_descriptor_limit"] = dist.get("run_under_descriptor_limit", 0) + 1
                    if r.get("nmulti", 0) > r["nofile"]:
                        dist["more_skipped_duplicates_than_descriptors"] = \
                            dist.get("more_skipped_duplicates_than_descriptors", 0) + 1
                if r["rc"] in (0, 1):
                    for tag in branches_of(c, r):
                        dist["branches"][tag] = dist["branches"].get(tag, 0) + 1
                if "flaky_first_rc" in r:
                    dist["crash_not_reproduced_on_rerun"] = dist.get("crash_not_reproduced_on_rerun", 0) + 1
                    ctx.notes.append("pdsh exited %s once and normally on the re-run: %s" % (r["flaky_first_rc"], c["wargs"]))
                dist["observed_through_exec"] = dist.get("observed_through_exec", 0) + (1 if r.get("via_exec") else 0)
                ml = max_line(c)
                if ml >= 2047:
                    dist["max_line_ge_2047"] += 1
                if c["nfiles"] >= 2 or ml >= 2047:
                    distinct.add(json.dumps([sorted(c["disk"].items()), c["wargs"], c["stdin"], c["env"]]))
                if len(cov["samples"]) < 3 and c["nfiles"] in (2, 3) and ml < 100 and r["rc"] == 0:
                    cov["samples"].append({"case": case_json(c), "real": r})
                for kind, sig, what in res["verdicts"]:
                    if kind == "offender":
                        small = c
                        known = any(f["property"] == ctx.prop and f.get("status") == "open" and
                                    re.fullmatch(f["signature"], sig) for f in ctx.findings.get("findings", []))
                        if not known and nshrunk < 3 and not ctx.replay:
                            nshrunk += 1
                            small = shrink(ctx, pdsh, c, sig, mode, linebuf if splits else None)
                        ctx.offender(sig, what, {"case": case_json(small), "real": r})
                    else:
                        ctx.disagreement("wcoll model vs pdsh: " + sig, what, case_json(c))
        dist["branches_never_hit"] = sorted(b for b, n in dist["branches"].items() if n == 0)
        cov["distinct_nontrivial"] = len(distinct)
        cov["distribution"] = dist
        cov["traces_validated_against_impl"] = cov["evaluations"]
    return ctx.finish(
        LEVEL, cov,
        assumptions=["no NUL bytes in files; paths without trailing or doubled slashes and without ':' in the "
                     "directory of the command-line file (list_split(':') quirk modelled, not in the oracle's domain)",
                     "every file is reached through ONE name (no aliasing of the same file by different path strings)",
                     "expansion of an expression is the hostlist parser's business (abstract in the theorems)",
                     "access(2)/fopen succeed exactly on readable files (checks run as uid 1000, not root)"],
        trusted_base=["Lean 4.33 kernel", "axioms: propext, Classical.choice, Quot.sound at most (audited per theorem)",
                      "hand-written model Opt/Wcoll.lean tied to wcoll.c/opt.c by differential execution",
                      "Gen/Wcoll.lean regenerated from /repo (LINEBUFSIZE)",
                      "checks/c10.py generators and the small expander (cross-checked against the real parser), setpriv"],
        checker_cmd="lake build PdshVerif.Props.C10 && #print axioms on every theorem of Props/C10.lean")
