"""C07  A failing or slow host never harms the others; timeouts bound the run.

proof:          lean/PdshVerif/Props/C07.lean (timed extension of the fan-out LTS in its general form Dsh/FanG.lean --
                every signalling discipline --: clock, scripted hosts, watchdog; projection onto the fan-out LTS,
                locality of a host's fate, healthy hosts complete, both deadlines, reporting, bounded virtual time;
                section K: -k fail-fast, Dsh/TimedK.lean)
correspondence: the unmodified dsh.c under the controlled scheduler with virtual clock and scripted transport
                (harness/sched, `reltime`, maximal progress) vs the same LTS, compiled (`pdshmodel timed`): every
                event enabled, threadcount / clock / enabled sets / watchdog hits / per-host bytes, closes and
                outcome equal
oracle:         monitors on the events of the real run only (vlib/timedcheck.offenders): healthy hosts connected
                once and relayed completely, never interrupted; overdue hosts interrupted by
                start+timeout+WDOG_POLL and reported under their own name; dsh() returns; the run is bounded
"""
import itertools
import json
import re

from vlib import sched
from vlib import timedcheck as T

LEVEL = "proof"
PROPS = "PdshVerif.Props.C07"
MANIFEST = dict(
    engine="sched",
    technique="Lean 4 proof (timed LTS over the Fan LTS: projection, locality, invariants under maximal progress) + "
              "trace correspondence of the unmodified dsh.c under a controlled scheduler with virtual clock and "
              "scripted hosts against the compiled LTS",
    text="Theorems in lean/PdshVerif/Props/C07.lean about the timed labelled transition system Dsh/Timed.lean "
         "(Fan LTS + integer clock + per-target phase/timestamps/streams + watchdog scan every WDOG_POLL; host scripts "
         "ok/refuse/hang-in-connect/hang-mid-stream/early close/read error; SIGALRM interrupts a target iff it is "
         "blocked in connect or xpoll): every timed execution projects to a Fan execution (C03/C04 carry over); a "
         "host's record evolves as a function of its own script, the timeouts and the clock only; a healthy host is "
         "never interrupted and ends DONE with all bytes read; a host still connecting (reading) is interrupted by "
         "start+connect_timeout+WDOG_POLL (connect+command_timeout+WDOG_POLL), never when command_timeout = 0; a "
         "command timeout is reported; virtual time is bounded when every hang is covered by a timeout.  The "
         "unmodified dsh.c runs under the controlled scheduler with virtual clock and scripted transport; each "
         "run's trace must be accepted step by step by the same `step` function and is judged by model-independent "
         "monitors.",
    design_ref="DESIGN.md section 5 C07, appendix A.1",
    note="Lean 4.33 kernel; axioms propext/Classical.choice/Quot.sound at most; model at the granularity `operations "
         "on the protocol objects + blocking calls`, maximal progress (time passes only when no thread can run), "
         "atomic watchdog scan; finer interleavings (every libc call a scheduling point, non-atomic scan) are "
         "exercised against the monitors only; the transport is the stub module below the real rcmd.c: connect-time "
         "messages are the stub's imitation of xrcmd.c, `command timeout` is dsh.c's own; the teardown is a phase of "
         "the model (rcmd_destroy returns when the scripted command is gone: exited by itself, or killed by the "
         "forwarded SIGTERM unless it ignores it; the slot is released only then); a command that never goes makes "
         "dsh() wait for ever — theorem immortal_never_returns (for Cfg.killAfter = false, the tree as it is), finding "
         "F07-TEARDOWN-WAIT, replayed on the real `pdsh -R exec -u 1`; the proposed repair (grace wait + SIGKILL before "
         "rcmd_destroy) is the model switch Cfg.killAfter, probed by behaviour, acceptor runs the variant found "
         "(kill_after_teardown_does_not_wait); -k fail-fast is Dsh/TimedK.lean (section K of the theorems, pinned runs through the "
         "acceptor); the pdcp worker's connect phase is under the same acceptor; DNS and real signal delivery are "
         "outside the model")


def gen_random(rng, nmax):
    n = rng.randrange(1, nmax + 1)
    ct = rng.choice([0, 1, 2, 2, 3, 5])
    ut = rng.choice([0, 0, 1, 2, 3, 4])
    A = T.alphabet(ct, ut)
    keys = sorted(A)
    behs = []
    for _ in range(n):
        r = rng.random()
        if r < 0.35:
            behs.append(A[rng.choice(["ok", "ok2", "silent", "exit3"])])
        elif r < 0.9:
            behs.append(A[rng.choice(keys)])
        else:   # free-form
            d = rng.randrange(0, ct + 4)
            e1, e2 = rng.randrange(0, ut + 4), rng.randrange(0, ut + 4)
            behs.append({"conn": [rng.choice(["ok", "ok", "refuse"]), d],
                         "out": [[0, rng.randrange(1, 90)], [e1, rng.randrange(1, 20)], [rng.choice([e1, e1, -1]), "EOF"]],
                         "err": [[e2, rng.choice(["EOF", "EOF", 9])], [e2, "EOF"]]})
    f = rng.randrange(1, n + 2)
    sopt = rng.random() < 0.5
    c = T.mk_case(behs, f, ct, ut, sopt, rng.randrange(1, 1 << 30),
                  strategy=rng.choices(["uniform", "pct", "starveD", "eagerD"], [55, 15, 15, 15])[0])
    if c["strategy"] == "pct":
        c["pct"] = [3, 40 * n]
    if rng.random() < 0.15:
        c["spurious"] = [150, rng.randrange(1, 4)]
    if rng.random() < 0.25:
        c["opts"]["lowfds"] = rng.choice([1, 1, 1, 3, 7])   # descriptors 0 / 0,1 / 0,1,2 are free: connections get them
    return c


def vectors(n, keys, settings, fanouts, rng):
    """all fault vectors of length n over the alphabet keys, for each timeout setting and fanout"""
    for ct, ut, sopt in settings:
        A = T.alphabet(ct, ut)
        ks = [k for k in keys if k in A]
        for vec in itertools.product(ks, repeat=n):
            for f in fanouts:
                if f > n + 1:
                    continue
                c = T.mk_case([A[k] for k in vec], f, ct, ut, sopt, rng.randrange(1, 1 << 30),
                              strategy=rng.choice(["uniform", "uniform", "starveD", "eagerD"]))
                if rng.random() < 0.2:
                    c["opts"]["lowfds"] = rng.choice([1, 1, 7])
                yield c


def pinned_cases():
    """The scenarios EVERY run executes, whatever the seed (no random draw decides whether a class is covered; seeds and
    strategies of these cases are fixed):
    (a) every behaviour of the alphabet at every position relative to the fanout window -- first, middle, last among
        healthy hosts, and all hosts alike -- with N = 3 and fanout 1 and 2, under -t and -u both set, -t only
        (command timeout 0) and -u only (connect timeout 0), the property's own exclusions left out;
    (b) descriptor numbers: pdsh started with stdin / stdin+stdout / all of stdio closed, so that connections are
        handed the descriptors 0, 1, 2 (with and without -s, healthy and faulty hosts);
    (c) the pdcp worker `_rcp_thread` (same slot protocol, own code): every connect-phase behaviour, pairs, fanout
        1 and 2, through the acceptor as well."""
    out = []
    strategies = ["uniform", "starveD", "eagerD"]

    def add(behs, f, ct, ut, sopt, **opts):
        c = T.mk_case(behs, f, ct, ut, sopt, 7000 + len(out), strategy=strategies[len(out) % 3])
        c["opts"].update(opts)
        c["pinned"] = True
        if not T.excluded(c):
            out.append(c)
    for ct, ut, sopt in ((2, 3, True), (1, 0, False), (0, 2, False)):
        A = T.alphabet(ct, ut)
        for k in sorted(A):
            for f in (1, 2):
                add([A[k], A["ok"], A["ok2"]], f, ct, ut, sopt)
                add([A["ok"], A[k], A["ok2"]], f, ct, ut, sopt)
                add([A["ok"], A["ok2"], A[k]], f, ct, ut, sopt)
            add([A[k], A[k], A[k]], 2, ct, ut, sopt)
    A = T.alphabet(2, 3)
    for low in (1, 3, 7):
        for sopt in (False, True):
            for vec in (["ok", "ok2"], ["ok2", "hang-after"], ["refuse", "ok"], ["exit3", "close-out-early"]):
                for f in (1, 2):
                    add([A[k] for k in vec], f, 2, 3, sopt, lowfds=low)
    conn = ["silent", "refuse", "refuse-late", "hang-connect", "conn-at", "conn-over", "conn-far"]
    for a in conn:
        for b in conn:
            for f in (1, 2):
                # a copy relays no command output: the remote side of a pdcp connection says nothing on its streams
                add([dict(A[a], out=[[0, "EOF"]], err=[[0, "EOF"]]) if A[a]["conn"][0] == "ok" else A[a],
                     dict(A[b], out=[[0, "EOF"]], err=[[0, "EOF"]]) if A[b]["conn"][0] == "ok" else A[b]],
                    f, 2, 3, False, pers="pcp")
    return out


def failfast_cases():
    """-k (fail-fast), which the property names as the exception to `pdsh terminates instead of waiting`: pinned runs
    (every pair over the core alphabet, fanout 1 and 2, plus hosts that hang with no timeout that would end them)
    through the acceptor (`Dsh/TimedK.lean`) and an oracle of their own (`failfast_offenders`)."""
    out = []

    def add(vec, f, ct, ut):
        A = T.alphabet(ct, ut)
        c = T.mk_case([A[k] for k in vec], f, ct, ut, False, 7500 + len(out),
                      strategy=["eagerD", "uniform", "starveD"][len(out) % 3])
        c["opts"]["k"] = 1
        c["failfast"] = True
        out.append(c)
    for a in T.CORE:
        for b in T.CORE:
            for f in (1, 2):
                add([a, b], f, 2, 3)
    for vec, f in ((["ok", "ok2", "silent"], 2), (["ok2", "close-err-early"], 1), (["refuse", "hang-after", "ok2"], 3),
                   (["hang-after", "refuse"], 2), (["ok", "refuse", "hang-silent"], 1),
                   (["hang-after", "hang-connect"], 2), (["hang-silent", "exit3", "hang-after"], 3)):
        add(vec, f, 5, 0)
    return out


def failfast_offenders(res):
    """-k, decided on the events of the run alone: (1) as long as no target fails, -k changes nothing (the ordinary
    oracle applies); (2) when a target has failed -- connect refused / timed out, command timed out, or exit status
    > 0 -- and its worker has left rcmd_destroy(), pdsh does not wait for anybody, not even for a host that hangs
    with no timeout set: it forwards SIGTERM to every command it is reading from and exits non-zero at that very
    virtual instant."""
    if res["crash"] is not None or res["bug"]:
        return T.offenders(res)
    m = res["M"]
    case = res["case"]
    H = T.observe(res)
    reading, fwd, t_fail, who, t_end = set(), set(), None, None, 0
    for _, now, th, ev in T.events(res):
        t_end = now
        if not th.startswith("W") or int(th[1:]) >= len(H):
            continue
        i = int(th[1:])
        if ev[0] == "connectEnd" and int(ev[2]) >= 0:
            reading.add(i)
        elif ev[0] == "destroyBegin":
            reading.discard(i)
        elif ev[0] == "fwd" and int(ev[2]) == 15:
            fwd.add(int(ev[1]))
        elif ev[0] == "destroyEnd" and t_fail is None:
            rc = int(ev[2]) if len(ev) > 2 and ev[2].lstrip("-").isdigit() else 0
            if H[i]["connret"] is not None and (H[i]["connret"] < 0 or H[i]["timeout_at"] is not None or rc > 0):
                t_fail, who = now, i
                reading_then = set(reading)
    if t_fail is None:
        return T.offenders(res)
    name = case["hosts"][who]["name"]
    out = []
    if m["status"] != "exit" or int(m["code"]) == 0:
        return [("failfast:no-exit", "-k and %s failed (teardown over at %d), but the run ends with status=%s code=%s "
                 "instead of a non-zero exit" % (name, t_fail, m["status"], m["code"]))]
    if t_end > t_fail:
        out.append(("failfast:waited", "-k: %s failed, teardown over at %d, but pdsh went on until %d" % (name, t_fail, t_end)))
    miss = sorted(reading_then - fwd)
    if miss:
        out.append(("failfast:not-signalled", "-k: pdsh exits but the command(s) of %s, which it was reading from, were "
                    "not sent SIGTERM" % ",".join(case["hosts"][i]["name"] for i in miss)))
    return out


def run(ctx):
    rng = ctx.rng
    ctx.gen_consts(["dsh"])
    ctx.lean_build([PROPS, "pdshmodel"])
    ctx.audit(PROPS)
    exe_san = sched.build(ctx, san=True)
    exe = sched.build(ctx, san=False)
    cov = {"evaluations": 0, "distinct_nontrivial": 0, "samples": [],
           "rule": "one evaluation = one complete run of the unmodified dsh() under the controlled scheduler with "
                   "virtual clock (maximal progress) and one fault vector = one behaviour per target from the alphabet "
                   "{ok, ok2, silent, refuse, refuse-late, hang-connect, hang-after, hang-silent, exit3, killed, "
                   "close-out-early, close-err-early, read-error, chatty, chatty-odd, chatty-ends, outlives (closes its "
                   "streams, lives 5 s more), stubborn (ignores SIGTERM, lives 6 s), lingers (dies 3 s after SIGTERM), "
                   "immortal (never exits, ignores SIGTERM), outlives-forever (closes its streams, never exits), "
                   "conn-at/over/far, cmd-at/over/far (connect delay resp. "
                   "stream end exactly at / just over / beyond timeout+WDOG_POLL)} or free-form, x timeout setting "
                   "(connect_timeout 0..5, command_timeout 0..4, -s on/off) x fanout 1..N+1 x schedule (uniform / PCT "
                   "/ starve-D / eager-D, some with spurious wake-ups); watchdog phase varies with the durations of the "
                   "hosts that ran before.  Granularity `fan` runs go through the Lean acceptor and the monitors, "
                   "granularity `all` runs (every libc call a scheduling point, non-atomic watchdog scan) through the "
                   "monitors only.  thorough: ALL vectors over the full alphabet for N<=2 and (2 timeout settings) N=3, over "
                   "the core alphabet for N=3 and a reduced alphabet for N=4, x 6 timeout settings x fanouts; plus, as "
                   "SUPPORTING evidence only, real `pdsh -R exec -u 2` runs of the scratch build on healthy / failing / "
                   "dying / hanging commands (wall clock).  Distinct = distinct (vector, timeouts, fanout, projected "
                   "trace); non-trivial = at least one faulty host and one healthy host, or a timeout fired"}
    dist = {"status": {}, "rejects": 0, "N": {}, "yield": {}, "timeouts_fired": 0, "excluded_runs": 0,
            "behaviours": {}, "accepted": 0}
    cov["distribution"] = dist
    variant = None
    if exe_san and exe:
        variant, probe = sched.detect_variant(exe, ctx.scratch)
        variant = variant or "while"
        cov["source_wait_construct"] = variant
        selfcheck, _ = T.detect_selfcheck(exe, ctx.scratch)
        cov["source_worker_tests_command_timeout_itself"] = selfcheck
        stopwdog = T.detect_stopwdog(exe, ctx.scratch)
        cov["source_dsh_stops_watchdog_before_return"] = stopwdog
        # F07-TEARDOWN-WAIT (a) repaired?  Probed by behaviour; the Timed LTS has the switch `killAfter` (a worker that
        # gives its target up waits one watchdog period and sends SIGKILL before rcmd_destroy) and the acceptor runs
        # the variant the tree shows
        ctx.killafter = T.detect_killafter(exe, ctx.scratch)
        cov["source_worker_kills_command_it_gave_up_on"] = ctx.killafter
        ctx.log("constructs of the tree (by behaviour): wait-for-room = %s, worker tests the command timeout itself = %s, "
                "dsh() stops the watchdog before it returns = %s" % (variant, selfcheck, stopwdog))
        variant = (variant, selfcheck, stopwdog, ctx.killafter)
        if ctx.replay:
            rp = json.load(open(ctx.replay))
            case = (rp.get("case") or {}).get("case")
            if "real_case" in (rp.get("case") or {}):
                from vlib import rshreal
                rshreal.replay_case(ctx, cov, rp["case"]["real_case"])
            elif isinstance(case, dict) and "hosts" in case:
                res = T.run_cases(exe_san, [case], ctx.scratch)[0]
                ctx.log("replay: monitors %s" % (res["M"],))
                for sig, what in (failfast_offenders(res) if case.get("failfast") else T.offenders(res)):
                    ctx.log("replay: %s %s" % (sig, what))
                    ctx.offender(sig, what, T.pack(res))
                if case.get("yield") == "fan" and res["crash"] is None:
                    bad = T.accept_all(ctx, [T.project(res, *variant)])[0]
                    if bad:
                        ctx.disagreement("Timed LTS vs dsh.c", "line %d `%s`: %s" % bad, T.pack(res))
                cov["evaluations"] = 1
            else:
                ctx.log("replay: the file names no case; re-run the tier instead")
        else:
            explore(ctx, exe_san, exe, variant, cov, dist)
            if not ctx.violations:
                from vlib import rshreal
                rshreal.run_part(ctx, cov, ctx.quick())     # the real rsh module (xrcmd.c EINTR paths), real kernel
            if not ctx.quick() and not ctx.violations:
                real_runs(ctx, cov)
    return ctx.finish(
        LEVEL, cov,
        assumptions=["maximal progress: computation is instantaneous at the granularity of the 1 s clock (the virtual "
                     "clock advances only when no thread can run); deadlines are therefore exact, real runs add "
                     "scheduling latency",
                     "SIGALRM interrupts a worker iff it is blocked in connect() or xpoll() at that instant; a signal "
                     "that lands elsewhere is lost (the no-op handler runs) and is repeated at the next watchdog poll",
                     "POSIX mutex / condition variable semantics as in C03/C04; pthread_create succeeds",
                     "the transport is scripted: connect result after d seconds or never, per-stream items at fixed "
                     "delays after the connect, the command's own life time, what SIGTERM does to it (dies after a "
                     "grace period / ignores it); rcmd_destroy returns when the command is gone (exec / ssh transports: "
                     "waitpid); -k only in the pinned fail-fast scenarios",
                     "constructs of the checked tree, detected by behaviour (wait-for-room, worker tests the command "
                     "timeout itself, dsh() stops the watchdog before returning): %s; the theorems hold for every "
                     "combination; worker waits a grace period and SIGKILLs a command it gave up on (repair of "
                     "F07-TEARDOWN-WAIT (a); if so, the acceptor runs the model variant Cfg.killAfter): %s"
                     % (variant, getattr(ctx, "killafter", None))],
        trusted_base=["Lean 4.33 kernel", "axioms: propext, Classical.choice, Quot.sound at most (audited per theorem)",
                      "hand-written LTS Dsh/Timed.lean + Dsh/TimedK.lean (over Dsh/FanG.lean) tied to dsh.c by trace acceptance",
                      "Gen/Dsh.lean regenerated from /repo (WDOG_POLL)",
                      "harness/sched/* (scheduler, virtual clock, wrappers, stub transport below the real rcmd.c), "
                      "vlib/sched.py, vlib/timedcheck.py, gcc, ASan/UBSan"],
        checker_cmd="lake build PdshVerif.Props.C07 && #print axioms on every theorem of Props/C07.lean")


def real_runs(ctx, cov):
    """SUPPORTING (not proof, real kernel, real threads, wall clock): the scratch build of pdsh with -R exec and
    -u 2 on a mix of healthy, failing, dying and hanging commands: the healthy ones are relayed completely, the
    hanging one is reported as `command timeout` under its name, and pdsh ends within timeout + WDOG_POLL + slack."""
    import os
    import subprocess
    import time
    repo = ctx.repo_build()
    if not repo:
        return
    helper = os.path.join(ctx.scratch, "c07helper.sh")
    with open(helper, "w") as f:
        f.write("#!/bin/sh\ncase $1 in\n r0) echo out-$1; echo err-$1 >&2;;\n r1) echo out-$1; exit 3;;\n"
                " r2) echo before-$1; exec sleep 30;;\n r3) echo out-$1; kill -9 $$;;\n r4) sleep 1; echo late-$1;;\n"
                " *) echo out-$1;;\nesac\n")
    os.chmod(helper, 0o755)
    real = []
    for fan in (1, 3, 8, 1, 3, 8):
        if len(real) >= 3 and real[fan == 3 and 1 or fan == 8 and 2 or 0]["ok"]:
            continue                    # second round: only the runs that were not ok are tried once more (loaded machine)
        t0 = time.time()
        try:
            p = subprocess.run([os.path.join(repo, "src/pdsh/pdsh"), "-R", "exec", "-u", "2", "-f", str(fan), "-w",
                                "r[0-5]", helper, "%h"], stdout=subprocess.PIPE, stderr=subprocess.PIPE, timeout=60,
                               env={"PATH": os.environ.get("PATH", "/usr/bin:/bin")})
            out, err, rc = p.stdout.decode("utf-8", "replace"), p.stderr.decode("utf-8", "replace"), p.returncode
        except subprocess.TimeoutExpired:
            out, err, rc = "", "TIMEOUT", -1
        wall = time.time() - t0
        want = ["r0: out-r0", "r1: out-r1", "r2: before-r2", "r3: out-r3", "r4: late-r4", "r5: out-r5"]
        missing = [w for w in want if w not in out.splitlines()]
        reported = any(re.match(r"^pdsh@[^:]*: r2: \S", l) for l in err.splitlines())   # under its name; any wording
        # sequential worst case at fanout 1: 1 s (r4) + command timeout 2 + WDOG_POLL 2, plus generous slack
        ok = not missing and reported and "r0: err-r0" in err.splitlines() and wall < 2 + 2 + 1 + 6 and rc >= 0
        entry = {"fanout": fan, "wall_s": round(wall, 2), "ok": ok, "missing": missing, "timeout_reported": reported}
        first_try = len(real) < 3
        if first_try:
            real.append(entry)
        else:
            real[{1: 0, 3: 1, 8: 2}[fan]] = dict(entry, retried=True)
        cov["evaluations"] += 1
        if not ok and not first_try:
            ctx.offender("real-run", "pdsh -R exec -u 2 -f %d: missing=%s reported=%s wall=%.1fs rc=%s stderr=%r" %
                         (fan, missing, reported, wall, rc, err[-300:]),
                         {"cmd": "pdsh -R exec -u 2 -f %d -w r[0-5] c07helper.sh %%h" % fan, "helper": open(helper).read()})
    cov["supporting_real_runs"] = real
    ctx.log("supporting real runs: %s" % real)


def explore(ctx, exe_san, exe, variant, cov, dist):
    rng = ctx.rng
    distinct = set()
    pending = []
    newcount = [0]
    sites_seen = set()

    def is_known(sig):
        return any(f["property"] == ctx.prop and f.get("status") == "open" and re.fullmatch(f["signature"], sig)
                   for f in ctx.findings.get("findings", []))

    def consume(results):
        fan = [r for r in results if r["case"]["yield"] == "fan" and r["crash"] is None and not r["bug"]]
        if getattr(ctx, "killafter", False):
            dist["given_up_runs_through_killAfter_variant"] = dist.get("given_up_runs_through_killAfter_variant", 0) + \
                sum(1 for r in fan if T.gave_up(r))
        batches = [T.project(r, *variant) for r in fan]
        verdicts = T.accept_all(ctx, batches) if batches else []
        for r, b, bad in zip(fan, batches, verdicts):
            if bad is not None:
                dist["rejects"] += 1
                if dist["rejects"] <= 3:
                    ctx.disagreement("Timed LTS (%s, selfcheck=%s, stopwdog=%s, killafter=%s) vs dsh.c" % variant,
                                     "projected trace line %d `%s`: %s" % (bad[0], bad[1], bad[2]), T.pack(r))
            else:
                dist["accepted"] += 1
            key = (json.dumps(r["case"]["behaviours"], sort_keys=True), json.dumps(r["case"]["opts"], sort_keys=True),
                   r["case"]["fanout"], sched.trace_key(b))
            fired = any(l.startswith("ev G scan ") and not l.endswith(" -") for l in b)
            dist["timeouts_fired"] += 1 if fired else 0
            kinds = set(x["conn"][0] for x in r["case"]["behaviours"])
            if fired or len(r["case"]["behaviours"]) >= 2:
                distinct.add(hash(key))
            if len(cov["samples"]) < 3 and fired and len(b) < 120:
                cov["samples"].append({"fanout": r["case"]["fanout"], "opts": r["case"]["opts"],
                                       "behaviours": r["case"]["behaviours"],
                                       "trace": [l[3:] for l in b if l.startswith("ev ")]})
        for r in results:
            cov["evaluations"] += 1
            if r.get("exe") == "sched_run":
                sites_seen.update(r.get("sites") or [])
            for call, place in sched.discipline(r):
                kd = "%s %s the critical section" % (call, place)
                dist.setdefault("signalling_discipline_observed", {})
                dist["signalling_discipline_observed"][kd] = dist["signalling_discipline_observed"].get(kd, 0) + 1
            st = (r["M"] or {}).get("status", "crash")
            dist["status"][st] = dist["status"].get(st, 0) + 1
            dist["connections_on_low_descriptors"] = dist.get("connections_on_low_descriptors", 0) + \
                sum(1 for _, ev in r["steps"] if len(ev) > 1 and ev[1] == "connectEnd" and ev[-1] == "lowfd") + \
                sum(1 for _, t in r["inline"] if len(t) > 1 and t[1] == "connectEnd" and t[-1] == "lowfd")
            dist["yield"][r["case"]["yield"]] = dist["yield"].get(r["case"]["yield"], 0) + 1
            dist["N"][str(len(r["case"]["hosts"]))] = dist["N"].get(str(len(r["case"]["hosts"])), 0) + 1
            dist["excluded_runs"] += 1 if T.excluded(r["case"]) else 0
            for sig, what in T.offenders(r):
                if not is_known(sig):
                    newcount[0] += 1
                pending.append((len(r["case"]["hosts"]), len(r["steps"]), sig, what, r))

    def enough():
        return newcount[0] >= 30 or dist["rejects"] >= 100

    def run_chunked(cases, label):
        CH = 800
        for i in range(0, len(cases), CH):
            if enough():
                ctx.log("enough offending runs; exploration stopped early")
                return
            chunk = cases[i:i + CH]
            res = T.run_cases(exe_san, chunk[::4], ctx.scratch) + \
                T.run_cases(exe, [c for j, c in enumerate(chunk) if j % 4], ctx.scratch)
            consume(res)
        ctx.log("%s: %d runs (total %d, accepted %d, rejected %d)" %
                (label, len(cases), cov["evaluations"], dist["accepted"], dist["rejects"]))

    # corpus: a target that talks at the instant of the watchdog poll after its deadline (F07-LOSTALRM needs the
    # worker outside xpoll at that instant: finest granularity, several schedules)
    chatty = {"conn": ["ok", 0], "out": [[0, 5], [4, 5], [-1, "EOF"]], "err": [[-1, "EOF"]]}
    corpus = [T.mk_case([chatty], 1, 2, 3, False, 100 + k, yld="all") for k in range(16)]
    # corpus: the watchdog decides to interrupt worker 0 (overdue), worker 0's connect completes in that instant and
    # it finishes, worker 1 inherits the thread id, the pthread_kill then hits the healthy worker 1 (F07-STALEID)
    slowc = {"conn": ["ok", 4], "out": [[0, "EOF"]], "err": [[0, "EOF"]]}
    fastc = {"conn": ["ok", 1], "out": [[0, 4], [0, "EOF"]], "err": [[0, "EOF"]]}
    stale = T.mk_case([slowc, fastc], 1, 3, 0, False, 1, strategy="list", yld="all")
    stale["choices"] = ("D D D D D D D D W0 W0 W0 W0 t G G t G G W0 W0 W0 W0 W0 W0 W0 W0 W0 W0 W0 W0 W0 W0 D W0 D D W1 W1 "
                        "W1 W1 D D D G W1 W1 W1 W1 W1 W1 W1 W1 W1 W1 D D D D D D").split()
    corpus.append(stale)
    for c in corpus:
        c["budget"] = 20000
    run_chunked(corpus, "corpus")
    pinned = pinned_cases()
    dist["pinned"] = len(pinned)
    run_chunked(pinned, "pinned scenarios (fault kind x window position x timeout options, descriptors 0-2, pdcp worker)")
    ff = T.run_cases(exe_san, failfast_cases(), ctx.scratch)
    dist["failfast_runs"] = len(ff)
    dist["failfast_exits"] = sum(1 for r in ff if (r["M"] or {}).get("status") == "exit")
    okff = [r for r in ff if r["crash"] is None and not r["bug"]]
    for r, bad in zip(okff, T.accept_all(ctx, [T.project(r, *variant) for r in okff]) if okff else []):
        if bad is not None:
            dist["rejects"] += 1
            if dist["rejects"] <= 3:
                ctx.disagreement("Timed LTS with -k (Dsh/TimedK.lean) vs dsh.c",
                                 "projected trace line %d `%s`: %s" % (bad[0], bad[1], bad[2]), T.pack(r))
        else:
            dist["accepted"] += 1
    for r in ff:
        cov["evaluations"] += 1
        for sig, what in failfast_offenders(r):
            pending.append((len(r["case"]["hosts"]), len(r["steps"]), sig, what, r))
            newcount[0] += 1
    ctx.log("-k (fail-fast) scenarios: %d runs, %d ended by the fail-fast exit" % (len(ff), dist["failfast_exits"]))
    settings_q = [(2, 3, True), (1, 0, False), (3, 1, True)]
    settings_t = [(2, 3, True), (1, 0, False), (3, 1, True), (2, 2, False), (0, 2, True), (5, 4, True)]
    if ctx.quick():
        cases = list(vectors(1, sorted(T.alphabet(2, 3)), settings_q, [1], rng))
        cases += list(vectors(2, sorted(T.alphabet(2, 3)), settings_q[:1], [1, 2], rng))
        cases += list(vectors(2, T.CORE, settings_q[1:], [1, 3], rng))
        run_chunked(cases, "all fault vectors N<=2")
        rnd = [gen_random(rng, 5) for _ in range(3000)]
    else:
        cases = list(vectors(1, sorted(T.alphabet(2, 3)), settings_t, [1, 2], rng))
        cases += list(vectors(2, sorted(T.alphabet(2, 3)), settings_t, [1, 2, 3], rng))
        cases += list(vectors(3, T.CORE, settings_t, [1, 2, 4], rng))
        cases += list(vectors(3, sorted(T.alphabet(2, 3)), settings_t[:2], [1, 2], rng))
        cases += list(vectors(4, ["ok", "refuse", "hang-connect", "hang-after", "close-out-early"], settings_t[:3], [1, 2, 3], rng))
        run_chunked(cases, "all fault vectors N<=3 (+N=4 reduced alphabet)")
        rnd = [gen_random(rng, 8) for _ in range(20000)]
    # a quarter of the random cases at the finest granularity (monitors only)
    for j, c in enumerate(rnd):
        if j % 4 == 3:
            c["yield"] = "all"
            c["budget"] = 40000
    run_chunked(rnd, "random fault vectors / schedules")

    if newcount[0] == 0 and not ctx.broken:
        cov["call_sites_of_dsh_c"] = sched.site_report(ctx, exe, sites_seen, "this check (plain build)")
    pending.sort(key=lambda t: (t[0], t[1]))
    seen = {}
    for _, _, sig, what, r in pending:
        seen[sig] = seen.get(sig, 0) + 1
        if seen[sig] <= 20:
            ctx.offender(sig, what, T.pack(r))
    cov["distinct_nontrivial"] = len(distinct)
    cov["traces_validated_against_impl"] = dist["accepted"]
    cov["offending_runs"] = seen
