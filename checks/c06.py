"""C06  Output records are atomic and carry the label of the host that produced them.

proof:          lean/PdshVerif/Props/C06.lean (every stdio call of the relay model is one whole record
                `label: line`, the tail comes last, the label is the host's own by the property's rule)
correspondence: harness/relay_harness.c = unmodified dsh.c/err.c/cbuf.c driven in-process, every stdio
                call (one fputs = one atomic write under the FILE lock) recorded, vs `pdshmodel relay`
oracle:         real code's stdio calls vs `pdshmodel relay spec` (Relay/Spec.lean: c06Ok, labelOf)
scheduler:      the unmodified dsh.c under the controlled scheduler (vlib/relay_sched.py): workers interleaved
                at EVERY stdio call (uniform, PCT, preempt-at-each-fputs; thorough: all io interleavings of
                tiny configurations); the global fputs log is a shuffle of the per-stream call lists Lean
                `runStream` predicts, and every call is one whole record with the right label
supporting:     real pdsh -R exec runs: whole stdout/stderr parsed as a shuffle of whole per-host records;
                target sets with/without domains go through dsh()'s own domain loop
The procedure is shared with C05: vlib/relay.py:run_check.
"""
from vlib import relay

LEVEL = "proof"
PROPS = "PdshVerif.Props.C06"
MANIFEST = dict(
    engine="relay",
    technique="Lean 4 proof (the list of stdio calls of the relay model is a function of the stream alone: one "
              "whole labelled record per line, then the tail; label rule of err.c/dsh() = the property's rule) + "
              "differential correspondence of the unmodified dsh.c/err.c (in-process, fputs interposed: one call = "
              "one atomic record) against the compiled model + real multi-host pdsh -R exec runs parsed as a "
              "shuffle of records",
    text="Theorems in lean/PdshVerif/Props/C06.lean about the model of _flush_lines/_flush_output/_verr %S and the "
         "domain loop of dsh(); the model is executed call by call against the real code on generated streams x "
         "chunkings x target sets (prefix names, one/two/no dots, digit-first, -N, -K, spanning domains); the "
         "specification decides on the real code's stdio calls whether each is one whole record with the right "
         "label and whether the tail comes last as one record.",
    design_ref="DESIGN.md section 5 C06",
    note="Lean 4.33 kernel; axioms propext/Classical.choice/Quot.sound at most; atomicity of one fputs against "
         "other threads is the POSIX stdio-lock assumption; labels of LINEBUFSIZE-1 bytes or more are truncated by "
         "_verr (outside the domain); the unterminated tail is written by two stdio calls in the unchanged tree "
         "(open finding F06-TAILSPLIT); threads are exercised by real runs, not modelled")


def run(ctx):
    return relay.run_check(ctx, "C06", PROPS, LEVEL)
