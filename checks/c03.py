"""C03  Every target gets exactly one command; pdsh ends when all are done.

proof:          lean/PdshVerif/Props/C03.lean (LTS of dsh()'s dispatcher/worker/condvar protocol: every schedule,
                any number of spurious wake-ups, both wait constructs, EVERY signalling discipline (Dsh/FanG.lean:
                wake-up call inside | after the critical section, signal | broadcast): once_only, none_else,
                exit_after_all, progress (no lost wake-up), rank (termination with finitely many spurious wake-ups);
                composed with the relay of C05 (Dsh/FanRelay.lean): EndToEnd.returns_after_output_delivered; with the
                worker's poll / read loop as code (Dsh/FanPoll.lean): EndToEnd.returns_after_output_delivered_poll;
                in an environment that runs out of threads / descriptors (Dsh/FanX.lean): X.all_once_or_loud_exit)
correspondence: the unmodified dsh.c under the controlled scheduler (harness/sched) vs the same LTS,
                compiled (`pdshmodel fan`): every event enabled, threadcount equal, enabled sets equal
oracle:         monitors of the harness on observable events only: per-host connect count = 1, no connect for
                a non-target, dsh() returns after the last teardown and after the output was written,
                no deadlock (no runnable thread), step budget
descriptors:    the model's connect outcome is success / failure, not a descriptor: the correspondence maps
                "rcmd_connect() >= 0" to success; the descriptor VALUE is generated over {0, 1, 2, >= 3} (harness key
                `lowfds`: pdsh started with stdin / stdio closed, lowest free number first), and the real part runs
                the scratch build of `pdsh -R exec` with descriptor 0 closed
"""
from vlib import fancheck

LEVEL = "proof"
PROPS = "PdshVerif.Props.C03"
MANIFEST = dict(
    engine="sched",
    technique="Lean 4 proof (invariants, progress and rank of the fan-out LTS, all schedules incl. spurious "
              "wake-ups) + trace correspondence of the unmodified dsh.c under a controlled scheduler against the "
              "compiled LTS",
    text="Theorems in lean/PdshVerif/Props/C03.lean about the labelled transition system of dsh()'s dispatch loop, "
         "worker epilogue and drain loop (Dsh/Fan.lean as pinned; Dsh/FanG.lean with the signalling discipline left "
         "open: each worker's wake-up call inside or after the critical section, signal or broadcast -- section G, "
         "and the acceptor runs FanG.step), for every fanout >= 1, every N, every schedule, any number "
         "of spurious wake-ups and both wait constructs (`if` as pinned, `while` as repaired): each target's connect "
         "happens at most once and only for targets, dsh() returns only after every target was started and torn "
         "down, until dsh() returns some non-spurious operation is always enabled (no lost wake-up), and every "
         "non-spurious step decreases a rank (termination with finitely many spurious wake-ups); composed with the "
         "relay model of C05 (Dsh/FanRelay.lean), dsh() returns only after every polled stream of every target has "
         "been written completely, in order, once, under its label (EndToEnd.returns_after_output_delivered, importing "
         "C05.relay_lossless_any_interleaving; returns_after_output_delivered_poll: the same with the worker's loop "
         "being C05's pollStep and its exit guarded by the code's loop condition only).  Section X (Dsh/FanX.lean: the "
         "RLIMIT_NOFILE prologue and a failing pthread_create as transitions around FanG.step, which the acceptor runs "
         "outside relay mode): every target exactly once, or exit status 1 right after the failed create with that "
         "target not started and dsh() not returned.  The unmodified "
         "dsh.c runs under a controlled scheduler (every pthread/libc call wrapped at link time, spurious wake-ups "
         "injected); each run's event trace must be accepted step by step by the same `step` function, with equal "
         "threadcount and equal enabled sets, and is judged by model-independent monitors.",
    design_ref="DESIGN.md section 5 C03/C04, appendix A.1",
    note="Lean 4.33 kernel; axioms propext/Classical.choice/Quot.sound at most; protocol-level model (operations on "
         "threadcount_mutex/threadcount_cond, thread creation, connect/destroy) tied to dsh.c by trace acceptance on "
         "random and exhaustively enumerated schedules; pthread semantics (POSIX mutex/condvar incl. spurious "
         "wake-ups) are modelled, not verified; real-kernel scheduling, workers that never "
         "return and cancellation by ^C^Z (C20) are outside the model; delivery of output before return is checked "
         "by a monitor only (C05 owns it); harness, gcc, ASan/UBSan trusted")


def run(ctx):
    variant, cov = fancheck.run(ctx, "C03", PROPS, LEVEL)
    # real kernel, real descriptors: pdsh started with stdin closed (the first connection gets descriptor 0)
    from vlib import fanreal
    if ctx.replay:
        import json
        rc = (json.load(open(ctx.replay)).get("case") or {}).get("real_closed")
        if rc:
            fanreal.run_closed_stdin(ctx, cov, only=rc)
    elif not ctx.violations and not ctx.broken:
        fanreal.run_closed_stdin(ctx, cov)
    return ctx.finish(LEVEL, cov, assumptions=fancheck.assumptions(variant),
                      trusted_base=fancheck.TRUSTED,
                      checker_cmd="lake build PdshVerif.Props.C03 && #print axioms on every theorem of Props/C03.lean")
